package main

// Running an edit history against the real graph.Instance, observing it, saving and reloading it.

import (
	"bytes"
	"crypto/sha256"
	"encoding/base64"
	"encoding/json"
	"fmt"
	"image/png"
	"math/big"
	"reflect"
	"regexp"
	"runtime"
	"sort"
	"strconv"
	"strings"
	"unsafe"

	"github.com/EliCDavis/jbtf"
	"github.com/EliCDavis/polyform/generator"
	"github.com/EliCDavis/polyform/generator/graph"
	"github.com/EliCDavis/polyform/generator/parameter"
	"github.com/EliCDavis/polyform/generator/schema"
	"github.com/EliCDavis/polyform/nodes"
	"github.com/EliCDavis/polyform/refutil"

	"verif/harness/hx"
)

// Op is one editing operation (the replayable description of a history is a list of these).
type Op struct {
	K    string `json:"k"`              // create delete connect disconnect update name desc producer setmeta delmeta eval
	Ty   string `json:"ty,omitempty"`   // create: type tag (or an unregistered key)
	ID   string `json:"id,omitempty"`   // target node id
	Src  string `json:"src,omitempty"`  // connect: source node id
	Port string `json:"port,omitempty"` // connect/disconnect: input port name
	Msg  string `json:"msg,omitempty"`  // update: base64 of the message body
	S    string `json:"s,omitempty"`    // name / description / producer name / metadata path
	V    string `json:"v,omitempty"`    // setmeta: JSON text of the value
}

type histDesc struct {
	AppName    string `json:"appName"`
	AppVersion string `json:"appVersion"`
	AppDesc    string `json:"appDesc"`
	// the rest of the application header that is saved with the graph: JSON text of []schema.Author and of
	// schema.WebScene ("" = not set)
	// Saver: "" (saves are App.Schema() bytes), "each" (a generator.GraphSaver writes the graph file after every edit,
	// as the edit server's endpoints do) or "evals" (it writes at the reads and once after the last edit); with a saver
	// the fresh application loads the FILE read back from disk
	Saver    string `json:"saver,omitempty"`
	Authors  string `json:"authors,omitempty"`
	WebScene string `json:"webScene,omitempty"`
	Ops      []Op   `json:"ops"`
	// Cont: edits applied AFTER the save, to the live instance and to the reloaded one alike ("the same graph"
	// includes how it carries on: ids handed out next, caches, parameter state)
	Cont []Op `json:"cont,omitempty"`
}

type outcome struct {
	ok    bool
	class string // "", "declared", "crash"
	msg   string
}

// guard runs f; an error return or panic(non-runtime error) is "declared", a runtime.Error panic is "crash".
func guard(f func() error) (o outcome) {
	defer func() {
		if r := recover(); r != nil {
			o.ok = false
			o.msg = fmt.Sprint(r)
			if _, isRt := r.(runtime.Error); isRt {
				o.class = "crash"
			} else {
				o.class = "declared"
			}
		}
	}()
	if err := f(); err != nil {
		return outcome{ok: false, class: "declared", msg: err.Error()}
	}
	return outcome{ok: true}
}

func b64(b []byte) string { return base64.StdEncoding.EncodeToString(b) }
func unb64(s string) []byte {
	b, err := base64.StdEncoding.DecodeString(s)
	if err != nil {
		panic(err)
	}
	if b == nil {
		b = []byte{}
	}
	return b
}

// applyOp performs one operation on the instance and returns the Coq rendering of the op.
// The Coq op of an update carries the VALUE the message denotes (typed decoding of the message by
// the harness, independent of the instance): the model does not parse JSON or PNG.
func applyOp(inst *graph.Instance, op Op) (string, outcome) {
	switch op.K {
	case "eval":
		// a READ: every artifact is produced (caches are warm afterwards), the UI's view of the graph and every
		// parameter's message are requested. Not an edit: the model is not told (empty rendering).
		return "", guard(func() error { readEverything(inst); saverSave(inst); return nil })
	case "create":
		key := op.Ty
		coqTy := len(tyTable) + 7 // an index outside the table: unregistered type
		if i, ok := tagIndex[op.Ty]; ok {
			key = tyTable[i].Key
			coqTy = i
		}
		o := guard(func() error { _, _, err := inst.CreateNode(key); return err })
		return fmt.Sprintf("OCreate %d", coqTy), o
	case "delete":
		o := guard(func() error { inst.DeleteNode(op.ID); return nil })
		return "ODelete " + hx.CoqString(op.ID), o
	case "connect":
		o := guard(func() error { inst.ConnectNodes(op.Src, "Out", op.ID, op.Port); return nil })
		return fmt.Sprintf("OConnect %s %s %s", hx.CoqString(op.Src), hx.CoqString(op.ID), hx.CoqString(op.Port)), o
	case "disconnect":
		o := guard(func() error { inst.DeleteNodeInputConnection(op.ID, op.Port); return nil })
		return fmt.Sprintf("ODisconnect %s %s", hx.CoqString(op.ID), hx.CoqString(op.Port)), o
	case "update":
		msg := unb64(op.Msg)
		val, valid := messageValue(inst, op.ID, msg)
		o := guard(func() error { _, err := inst.UpdateParameter(op.ID, msg); return err })
		if !valid {
			return "OUpdateBad " + hx.CoqString(op.ID), o
		}
		return fmt.Sprintf("OUpdate %s %s", hx.CoqString(op.ID), val.Coq()), o
	case "name":
		o := guard(func() error { inst.Parameter(op.ID).SetName(op.S); return nil })
		return fmt.Sprintf("OSetName %s %s", hx.CoqString(op.ID), hx.CoqString(op.S)), o
	case "desc":
		o := guard(func() error { inst.Parameter(op.ID).SetDescription(op.S); return nil })
		return fmt.Sprintf("OSetDesc %s %s", hx.CoqString(op.ID), hx.CoqString(op.S)), o
	case "producer":
		o := guard(func() error { inst.SetNodeAsProducer(op.ID, op.S); return nil })
		return fmt.Sprintf("OSetProducer %s %s", hx.CoqString(op.ID), hx.CoqString(op.S)), o
	case "setmeta":
		// the server decodes the request body with encoding/json into `any`
		var v any
		if err := json.Unmarshal([]byte(op.V), &v); err != nil {
			panic(fmt.Errorf("harness: metadata value is not JSON: %q", op.V))
		}
		// the model is handed the value as encoding/json prints it back (numbers are float64 by then)
		val := canonValue(v)
		o := guard(func() error { inst.SetMetadata(op.S, v); return nil })
		return fmt.Sprintf("OSetMeta %s %s", hx.CoqString(op.S), val.Coq()), o
	case "delmeta":
		o := guard(func() error { inst.DeleteMetadata(op.S); return nil })
		return "ODelMeta " + hx.CoqString(op.S), o
	}
	panic("harness: unknown op " + op.K)
}

// messageValue decodes an update message the way the target's parameter type would, on a FRESH
// parameter of that type, and returns the canonical tree of the value it denotes.
func messageValue(inst *graph.Instance, id string, msg []byte) (jv, bool) {
	var target nodes.Node
	if o := guard(func() error { target = inst.Node(id); return nil }); !o.ok {
		return jv{}, false
	}
	ti, ok := keyIndex[refutil.GetTypeWithPackage(target)]
	if !ok || tyTable[ti].PKind == 0 {
		return jv{}, false
	}
	fresh := newFactory().New(tyTable[ti].Key).(nodes.Node)
	p := fresh.(graph.Parameter)
	if o := guard(func() error { _, err := p.ApplyMessage(msg); return err }); !o.ok {
		return jv{}, false
	}
	rec := paramRecord(fresh)
	return rec.arr[3].arr[0], true
}

// ---- observation ----

func pngBytes(p *parameter.Image) (jv, bool) {
	img := p.Value()
	if img == nil {
		return jv{}, false
	}
	buf := bytes.Buffer{}
	if err := png.Encode(&buf, img); err != nil {
		panic(err)
	}
	return jbytes(buf.Bytes()), true
}

func cliOf(flagName, usage string, present bool) jv {
	if !present {
		return jnull()
	}
	return jarr(jstr(flagName), jstr(usage))
}

// paramRecord: [name; description; default; value; cli] of a parameter node, JNull for other nodes.
// default/value are JNull when nil, else a one-element array holding the value.
func paramRecord(n nodes.Node) jv {
	wrap := func(present bool, v jv) jv {
		if !present {
			return jnull()
		}
		return jarr(v)
	}
	switch p := n.(type) {
	case *parameter.File:
		cli := jnull()
		if p.CLI != nil {
			cli = cliOf(p.CLI.FlagName, p.CLI.Usage, true)
		}
		return jarr(jstr(p.Name), jstr(p.Description), wrap(p.DefaultValue != nil, jbytes(p.DefaultValue)),
			wrap(p.Value() != nil, jbytes(p.Value())), cli)
	case *parameter.Image:
		cli := jnull()
		if p.CLI != nil {
			cli = cliOf(p.CLI.FlagName, p.CLI.Usage, true)
		}
		def := jnull()
		if p.DefaultValue != nil {
			buf := bytes.Buffer{}
			if err := png.Encode(&buf, p.DefaultValue); err != nil {
				panic(err)
			}
			def = jarr(jbytes(buf.Bytes()))
		}
		v, ok := pngBytes(p)
		return jarr(jstr(p.Name), jstr(p.Description), def, wrap(ok, v), cli)
	}
	gp, ok := n.(graph.Parameter)
	if !ok {
		return jnull()
	}
	// Value[T]: Schema() is ValueSchema[T]{name, description, type, defaultValue, currentValue}
	data, err := json.Marshal(gp.Schema())
	if err != nil {
		panic(err)
	}
	var s struct {
		Name        string          `json:"name"`
		Description string          `json:"description"`
		Default     json.RawMessage `json:"defaultValue"`
		Current     json.RawMessage `json:"currentValue"`
	}
	if err := json.Unmarshal(data, &s); err != nil {
		panic(err)
	}
	if gp.DisplayName() != s.Name {
		panic("harness: DisplayName differs from Schema().Name")
	}
	cli := jnull()
	cf := reflect.ValueOf(n).Elem().FieldByName("CLI")
	if cf.IsValid() && !cf.IsNil() {
		cli = cliOf(cf.Elem().FieldByName("FlagName").String(), cf.Elem().FieldByName("Usage").String(), true)
	}
	return jarr(jstr(s.Name), jstr(s.Description), jarr(mustJSON(s.Default)), jarr(mustJSON(s.Current)), cli)
}

var arrayDepName = regexp.MustCompile(`^([^.]*)\.(0|[1-9][0-9]*)$`)

// summarize: the structure of a live instance. ids come from a save of that instance (the
// instance has no node enumeration besides its schema).
//
//	[ nodes; producers; metadata ]
//	node     = [id; type index; ports; parameter record; message view]
//	message view = JNull | [value]: the value denoted by Instance.ParameterData(id), the message the edit
//	               server answers a parameter read with (decoded on a fresh parameter of the type)
//	ports    = [[field; [source ids in ARRAY ORDER]] ...] in port-table order
//	producer = [name; node id; port], sorted by name
func summarize(inst *graph.Instance, ids []string) (jv, error) {
	sort.Strings(ids)
	nodesOut := []jv{}
	for _, id := range ids {
		var n nodes.Node
		if o := guard(func() error { n = inst.Node(id); return nil }); !o.ok {
			return jv{}, fmt.Errorf("node %q: %s", id, o.msg)
		}
		if inst.NodeId(n) != id {
			return jv{}, fmt.Errorf("NodeId(Node(%q)) = %q", id, inst.NodeId(n))
		}
		ti, ok := keyIndex[refutil.GetTypeWithPackage(n)]
		if !ok {
			return jv{}, fmt.Errorf("node %q has unknown type %s", id, refutil.GetTypeWithPackage(n))
		}
		t := tyTable[ti]
		scalars := map[string][]string{}
		arrays := map[string]map[int]string{}
		for _, d := range n.Dependencies() {
			src := inst.NodeId(d.Dependency())
			if d.DependencyPort() != "Out" {
				src += "#" + d.DependencyPort()
			}
			if m := arrayDepName.FindStringSubmatch(d.Name()); m != nil {
				k, _ := strconv.Atoi(m[2])
				if arrays[m[1]] == nil {
					arrays[m[1]] = map[int]string{}
				}
				if _, dup := arrays[m[1]][k]; dup {
					return jv{}, fmt.Errorf("node %q: duplicate dependency %s", id, d.Name())
				}
				arrays[m[1]][k] = src
			} else {
				scalars[d.Name()] = append(scalars[d.Name()], src)
			}
		}
		ports := []jv{}
		seen := 0
		for _, p := range t.Ports {
			srcs := []jv{}
			if p.Array {
				arr := arrays[p.Name]
				for k := 0; k < len(arr); k++ {
					s, ok := arr[k]
					if !ok {
						return jv{}, fmt.Errorf("node %q: array port %s has a hole at %d", id, p.Name, k)
					}
					srcs = append(srcs, jstr(s))
				}
				if len(arr) > 0 {
					seen++
				}
			} else {
				for _, s := range scalars[p.Name] {
					srcs = append(srcs, jstr(s))
				}
				if len(scalars[p.Name]) > 0 {
					seen++
				}
			}
			ports = append(ports, jarr(jstr(p.Name), jlist(srcs)))
		}
		if seen != len(scalars)+len(arrays) {
			return jv{}, fmt.Errorf("node %q reports a dependency on a port that is not in its table", id)
		}
		nodesOut = append(nodesOut, jarr(jstr(id), jint(int64(ti)), jlist(ports), paramRecord(n), messageView(inst, id, t)))
	}
	prods := []jv{}
	names := inst.ProducerNames()
	sort.Strings(names)
	for _, name := range names {
		p := inst.Producer(name)
		prods = append(prods, jarr(jstr(name), jstr(inst.NodeId(p.Node())), jstr(p.Port())))
	}
	g := schema.App{}
	inst.EncodeToAppSchema(&g, &jbtf.Encoder{})
	meta := g.Metadata
	if meta == nil {
		meta = map[string]any{}
	}
	return jarr(jlist(nodesOut), jlist(prods), canonValue(meta)), nil
}

// messageView: what a client reading the parameter (GET parameter value -> Instance.ParameterData) is told
func messageView(inst *graph.Instance, id string, t *tyInfo) jv {
	if t.PKind == 0 {
		return jnull()
	}
	var msg []byte
	if o := guard(func() error { msg = inst.ParameterData(id); return nil }); !o.ok {
		return jstr("ParameterData: " + o.class)
	}
	if msg == nil {
		return jnull()
	}
	v, ok := messageValue(inst, id, msg)
	if !ok {
		return jstr("ParameterData returns a message the type refuses")
	}
	return jarr(v)
}

// readEverything: the reads a client can make, none of which may change the graph
func readEverything(inst *graph.Instance) {
	if app, ok := appOf[inst]; ok {
		app.Schema() // the edit server saves after every edit
	}
	artifacts(inst)
	g := schema.App{}
	inst.EncodeToAppSchema(&g, &jbtf.Encoder{})
	for id := range g.Nodes {
		if _, isParam := inst.Node(id).(graph.Parameter); isParam {
			inst.ParameterData(id)
		}
	}
}

// artifacts: [[producer name; outcome; length; sha256]] sorted by name
func artifacts(inst *graph.Instance) jv {
	names := inst.ProducerNames()
	sort.Strings(names)
	out := []jv{}
	for _, name := range names {
		buf := bytes.Buffer{}
		o := guard(func() error { return inst.Artifact(name).Write(&buf) })
		if !o.ok {
			out = append(out, jarr(jstr(name), jstr("fails"), jint(0), jint(0)))
			continue
		}
		out = append(out, jarr(jstr(name), jstr("ok"), jint(int64(buf.Len())), digest(buf.Bytes())))
	}
	out = append(out, jarr(jstr("$metadata-view"), metadataView(inst)))
	return jlist(out)
}

// metadataView: the metadata as the UI reads it — Instance.Schema(): the "notes" subtree and every node's
// "nodes.<id>" subtree — i.e. NOT through EncodeToAppSchema (the instance has no other metadata getter).
func metadataView(inst *graph.Instance) jv {
	view := jstr("Schema() panics")
	guard(func() error {
		g := inst.Schema()
		per := map[string]jv{}
		for id, n := range g.Nodes {
			if n.Metadata != nil {
				per[id] = canonValue(n.Metadata)
			}
		}
		notes := jnull()
		if g.Notes != nil {
			notes = canonValue(g.Notes)
		}
		view = jarr(notes, jobj(per))
		return nil
	})
	return view
}

func digest(b []byte) jv {
	h := sha256.Sum256(b)
	return jbig(new(big.Int).SetBytes(h[:]).String())
}

// ---- the application layer ----
//
// The edit server edits app.graphInstance through the Instance API and saves with App.Schema() (after every
// edit: autosave). The harness does the same: the live graph of a history IS the instance of a generator.App,
// and so is the reloaded one (fresh App, ApplySchema). App keeps its instance in an unexported field; the
// harness reads that pointer (reflect + unsafe), nothing else.

var appOf = map[*graph.Instance]*generator.App{}

func instanceOf(app *generator.App) *graph.Instance {
	f := reflect.ValueOf(app).Elem().FieldByName("graphInstance")
	if !f.IsValid() || f.Type() != reflect.TypeOf((*graph.Instance)(nil)) {
		panic("harness: generator.App no longer has a field graphInstance *graph.Instance")
	}
	inst := *(**graph.Instance)(unsafe.Pointer(f.UnsafeAddr()))
	if inst == nil {
		panic("harness: generator.App has no instance after Schema()")
	}
	return inst
}

// newApp: an application as cmd/polyform's edit mode holds it
func newApp(d histDesc) (*generator.App, *graph.Instance) {
	app := &generator.App{Name: d.AppName, Version: d.AppVersion, Description: d.AppDesc}
	app.Authors, app.WebScene = headerOf(d)
	app.Schema() // creates the App's instance
	inst := instanceOf(app)
	appOf[inst] = app
	return app, inst
}

func forget(insts ...*graph.Instance) {
	for _, i := range insts {
		delete(appOf, i)
		dropSaver(i)
	}
}

// saveInstance: App.Schema() for the instance of an App; for a bare graph.Instance the same calls in the same
// order with a fresh encoder (saveGraphLevel)
func saveInstance(inst *graph.Instance, d histDesc) []byte {
	if app, ok := appOf[inst]; ok {
		return app.Schema()
	}
	return saveGraphLevel(inst, d)
}

// headerOf: the authors and web scene of a history's application
func headerOf(d histDesc) ([]schema.Author, *schema.WebScene) {
	var authors []schema.Author
	var scene *schema.WebScene
	if d.Authors != "" {
		if err := json.Unmarshal([]byte(d.Authors), &authors); err != nil {
			panic(fmt.Errorf("harness: authors %q: %w", d.Authors, err))
		}
	}
	if d.WebScene != "" {
		scene = &schema.WebScene{}
		if err := json.Unmarshal([]byte(d.WebScene), scene); err != nil {
			panic(fmt.Errorf("harness: web scene %q: %w", d.WebScene, err))
		}
	}
	return authors, scene
}

func saveGraphLevel(inst *graph.Instance, d histDesc) []byte {
	g := schema.App{
		Name:        d.AppName,
		Version:     d.AppVersion,
		Description: d.AppDesc,
		Producers:   make(map[string]schema.Producer),
	}
	g.Authors, g.WebScene = headerOf(d)
	encoder := &jbtf.Encoder{}
	inst.EncodeToAppSchema(&g, encoder)
	data, err := encoder.ToPgtf(g)
	if err != nil {
		panic(err)
	}
	return data
}

// plainReload: the file into a bare graph.Instance built from the harness's factory, saved at graph level
func plainReload(file []byte, d histDesc) (out []byte, o outcome) {
	o = guard(func() error {
		inst := graph.New(newFactory())
		if err := inst.ApplyAppSchema(file); err != nil {
			return err
		}
		out = saveGraphLevel(inst, d)
		return nil
	})
	return
}

// ---- reading the saved file ----

type fileDoc struct {
	Buffers []struct {
		ByteLength int    `json:"byteLength"`
		URI        string `json:"uri"`
	} `json:"buffers"`
	BufferViews []struct {
		Buffer     int `json:"buffer"`
		ByteOffset int `json:"byteOffset"`
		ByteLength int `json:"byteLength"`
	} `json:"bufferViews"`
	Data struct {
		Producers map[string]struct {
			NodeID string `json:"nodeID"`
			Port   string `json:"port"`
		} `json:"producers"`
		Nodes map[string]struct {
			Type         string `json:"type"`
			Dependencies []struct {
				DependencyID   string `json:"dependencyID"`
				DependencyPort string `json:"dependencyPort"`
				Name           string `json:"name"`
			} `json:"dependencies"`
			Data json.RawMessage `json:"data"`
		} `json:"nodes"`
		Metadata map[string]json.RawMessage `json:"metadata"`
	} `json:"data"`
}

const dataURI = "data:application/octet-stream;base64,"

type fileInfo struct {
	tree      jv
	ids       []string
	buffer    []byte
	overread  bool // a File payload view is followed by further buffer content
	nPayloads int
	nDeps     int
	maxArray  int
}

// readFile turns a saved file into the schema tree
//
//	[ nodes; producers; metadata; buffer ]
//	node = [id; type index; deps; data]     (file order = sorted keys)
//	dep  = [name; dependency id; port]      (FILE ORDER)
//	data = JNull | [name; description|JNull; current; default; cli]
//	current/default = JNull (absent) | [value] | [offset; length] (buffer view)
func readFile(file []byte) (fileInfo, error) {
	var doc fileDoc
	dec := json.NewDecoder(bytes.NewReader(file))
	if err := dec.Decode(&doc); err != nil {
		return fileInfo{}, err
	}
	info := fileInfo{}
	if len(doc.Buffers) > 1 {
		return info, fmt.Errorf("%d buffers", len(doc.Buffers))
	}
	if len(doc.Buffers) == 1 {
		if !strings.HasPrefix(doc.Buffers[0].URI, dataURI) {
			return info, fmt.Errorf("buffer uri")
		}
		b, err := base64.StdEncoding.DecodeString(doc.Buffers[0].URI[len(dataURI):])
		if err != nil {
			return info, err
		}
		if len(b) != doc.Buffers[0].ByteLength {
			return info, fmt.Errorf("buffer byteLength %d, data %d", doc.Buffers[0].ByteLength, len(b))
		}
		info.buffer = b
	}
	for id := range doc.Data.Nodes {
		info.ids = append(info.ids, id)
	}
	sort.Strings(info.ids)
	usedViews := map[int]bool{}
	nodesOut := []jv{}
	for _, id := range info.ids {
		n := doc.Data.Nodes[id]
		ti, ok := keyIndex[n.Type]
		if !ok {
			return info, fmt.Errorf("node %q: unknown type %s", id, n.Type)
		}
		deps := []jv{}
		perField := map[string]int{}
		for _, d := range n.Dependencies {
			deps = append(deps, jarr(jstr(d.Name), jstr(d.DependencyID), jstr(d.DependencyPort)))
			info.nDeps++
			if m := arrayDepName.FindStringSubmatch(d.Name); m != nil {
				perField[m[1]]++
				if perField[m[1]] > info.maxArray {
					info.maxArray = perField[m[1]]
				}
			}
		}
		data := jnull()
		if tyTable[ti].PKind != 0 {
			if len(n.Data) == 0 {
				return info, fmt.Errorf("node %q: parameter without data", id)
			}
			var raw map[string]json.RawMessage
			if err := json.Unmarshal(n.Data, &raw); err != nil {
				return info, err
			}
			field := func(plain, view string) (jv, error) {
				if r, ok := raw[view]; ok {
					var idx int
					if err := json.Unmarshal(r, &idx); err != nil || idx < 0 || idx >= len(doc.BufferViews) {
						return jv{}, fmt.Errorf("node %q: bad view index %s", id, string(r))
					}
					if usedViews[idx] {
						return jv{}, fmt.Errorf("buffer view %d used twice", idx)
					}
					usedViews[idx] = true
					v := doc.BufferViews[idx]
					if v.Buffer != 0 || v.ByteOffset+v.ByteLength > len(info.buffer) {
						return jv{}, fmt.Errorf("buffer view %d out of range", idx)
					}
					info.nPayloads++
					if tyTable[ti].PKind == 2 && v.ByteOffset+v.ByteLength < len(info.buffer) {
						info.overread = true
					}
					return jarr(jint(int64(v.ByteOffset)), jint(int64(v.ByteLength))), nil
				}
				if r, ok := raw[plain]; ok {
					return jarr(mustJSON(r)), nil
				}
				return jnull(), nil
			}
			cur, err := field("currentValue", "$CurrentValue")
			if err != nil {
				return info, err
			}
			def, err := field("defaultValue", "$DefaultValue")
			if err != nil {
				return info, err
			}
			var name string
			if err := json.Unmarshal(raw["name"], &name); err != nil {
				return info, fmt.Errorf("node %q: name: %v", id, err)
			}
			desc := jnull()
			if r, ok := raw["description"]; ok {
				var s string
				if err := json.Unmarshal(r, &s); err != nil {
					return info, err
				}
				desc = jstr(s)
			}
			cli := jnull()
			if r, ok := raw["cli"]; ok && string(r) != "null" {
				var c struct {
					FlagName string `json:"flagName"`
					Usage    string `json:"usage"`
					F2       string `json:"FlagName"`
				}
				if err := json.Unmarshal(r, &c); err != nil {
					return info, err
				}
				cli = jarr(jstr(c.FlagName), jstr(c.Usage))
			}
			data = jarr(jstr(name), desc, cur, def, cli)
		} else if len(n.Data) != 0 {
			return info, fmt.Errorf("node %q: unexpected data", id)
		}
		nodesOut = append(nodesOut, jarr(jstr(id), jint(int64(ti)), jlist(deps), data))
	}
	if len(usedViews) != len(doc.BufferViews) {
		return info, fmt.Errorf("%d buffer views, %d referenced", len(doc.BufferViews), len(usedViews))
	}
	prods := []jv{}
	pnames := []string{}
	for name := range doc.Data.Producers {
		pnames = append(pnames, name)
	}
	sort.Strings(pnames)
	for _, name := range pnames {
		p := doc.Data.Producers[name]
		prods = append(prods, jarr(jstr(name), jstr(p.NodeID), jstr(p.Port)))
	}
	meta := map[string]jv{}
	for k, r := range doc.Data.Metadata {
		meta[k] = mustJSON(r)
	}
	info.tree = jarr(jlist(nodesOut), jlist(prods), jobj(meta), jbytes(info.buffer))
	return info, nil
}
