// Decoding in child processes.  The harness re-executes itself with "-worker": the child caps its address space
// (RLIMIT_AS), then answers decode requests on stdin/stdout.  The parent applies the deadline; a child that
// misses it is killed (class hang), a child that dies (Go's "fatal error: out of memory" cannot be recovered) is
// class crash.  Observables (digest, counts, the PTS result as a Coq term) are computed in the child so that only
// small answers cross the pipe.
package main

import (
	"bufio"
	"bytes"
	"crypto/sha1"
	"encoding/binary"
	"encoding/hex"
	"encoding/json"
	"fmt"
	"io"
	"math"
	"os"
	"os/exec"
	"runtime"
	"sort"
	"strconv"
	"strings"
	"sync"
	"syscall"
	"testing/iotest"
	"time"

	"github.com/EliCDavis/polyform/formats/ply"
	"github.com/EliCDavis/polyform/formats/pts"
	"github.com/EliCDavis/polyform/formats/splat"
	"github.com/EliCDavis/polyform/formats/spz"
	"github.com/EliCDavis/polyform/formats/stl"
	"github.com/EliCDavis/polyform/modeling"
)

const (
	clsOk    = 0
	clsErr   = 1 // error return or panic(err) with a non-runtime error: a reported failure
	clsCrash = 2 // runtime.Error panic, or the decoding process died (out of memory)
	clsHang  = 3 // deadline exceeded
	clsDep   = 4 // the result depends on the kind of io.Reader the bytes come from
)

// Reader kinds: every decode is repeated with each of them; the result must not depend on it.
// In-memory readers exposing Len()/Seek/ReadAt, and opaque streaming readers that only have Read.
var readerKinds = []string{"bytes.Reader", "bytes.Buffer", "strings.Reader", "opaque io.Reader (no Len)",
	"iotest.OneByteReader", "iotest.HalfReader", "iotest.DataErrReader"}

const kindAll = 15

func mkReader(kind int, data []byte) io.Reader {
	switch kind {
	case 1:
		return bytes.NewBuffer(append([]byte(nil), data...))
	case 2:
		return strings.NewReader(string(data))
	case 3:
		return struct{ io.Reader }{bytes.NewReader(data)}
	case 4:
		return iotest.OneByteReader(bytes.NewReader(data))
	case 5:
		return iotest.HalfReader(bytes.NewReader(data))
	case 6:
		return iotest.DataErrReader(bytes.NewReader(data))
	}
	return bytes.NewReader(data)
}

func sameObservables(a, b outcome) bool {
	if a.Cls != b.Cls || a.N != b.N || a.Digest != b.Digest || a.HasErr != b.HasErr || a.Pts != b.Pts || len(a.Recs) != len(b.Recs) {
		return false
	}
	for i := range a.Recs {
		if a.Recs[i] != b.Recs[i] {
			return false
		}
	}
	return true
}

// decodeKinds decodes with one reader kind, or (kindAll) with every kind and folds the outcomes: identical ->
// that outcome; a crash under some reader -> that crash; otherwise class clsDep.
func decodeKinds(format string, data []byte, kind int) outcome {
	if kind != kindAll {
		return decodeHere(format, data, kind)
	}
	first := decodeHere(format, data, 0)
	total := first.Micros
	for k := 1; k < len(readerKinds); k++ {
		o := decodeHere(format, data, k)
		total += o.Micros
		if sameObservables(first, o) {
			continue
		}
		if o.Cls == clsCrash {
			o.Msg = readerKinds[k] + ": " + o.Msg
			return o
		}
		if first.Cls == clsCrash {
			first.Msg = readerKinds[0] + ": " + first.Msg
			return first
		}
		return outcome{Cls: clsDep, N: o.N, Micros: total,
			Msg: fmt.Sprintf("result depends on the reader: %s -> class %d (%d vertices), %s -> class %d (%d vertices)",
				readerKinds[0], first.Cls, first.N, readerKinds[k], o.Cls, o.N)}
	}
	first.Micros = total
	return first
}

const memCapBytes = 3 << 30 // address-space cap of a decoding process

var formats = []string{"stl", "ply", "pts", "splat", "spz"}

type outcome struct {
	Cls    int      `json:"cls"`
	Msg    string   `json:"msg,omitempty"`
	HasErr bool     `json:"has_err,omitempty"` // .splat returns data AND an error
	N      int      `json:"n"`                 // AttributeLength of the returned mesh
	Digest string   `json:"digest,omitempty"`  // bit-exact digest of the returned mesh
	Recs   []string `json:"recs,omitempty"`    // .splat: one digest per returned splat
	Pts    string   `json:"pts,omitempty"`     // pts: the result as a Coq term of type pts_result
	Micros int64    `json:"us"`                // decode time measured inside the child
	PeakMB int64    `json:"peak_mb,omitempty"` // filled in by the parent for hostile cases
}

// ---------- canonical digest of a mesh (bit-exact) ----------
func meshDigest(m modeling.Mesh) string {
	var b strings.Builder
	fmt.Fprintf(&b, "T%d|I", int(m.Topology()))
	idx := m.Indices()
	for i := 0; i < idx.Len(); i++ {
		fmt.Fprintf(&b, "%d,", idx.At(i))
	}
	names := m.Float1Attributes()
	sort.Strings(names)
	for _, n := range names {
		fmt.Fprintf(&b, "|1:%s:", n)
		a := m.Float1Attribute(n)
		for i := 0; i < a.Len(); i++ {
			fmt.Fprintf(&b, "%x,", math.Float64bits(a.At(i)))
		}
	}
	names = m.Float2Attributes()
	sort.Strings(names)
	for _, n := range names {
		fmt.Fprintf(&b, "|2:%s:", n)
		a := m.Float2Attribute(n)
		for i := 0; i < a.Len(); i++ {
			v := a.At(i)
			fmt.Fprintf(&b, "%x/%x,", math.Float64bits(v.X()), math.Float64bits(v.Y()))
		}
	}
	names = m.Float3Attributes()
	sort.Strings(names)
	for _, n := range names {
		fmt.Fprintf(&b, "|3:%s:", n)
		a := m.Float3Attribute(n)
		for i := 0; i < a.Len(); i++ {
			v := a.At(i)
			fmt.Fprintf(&b, "%x/%x/%x,", math.Float64bits(v.X()), math.Float64bits(v.Y()), math.Float64bits(v.Z()))
		}
	}
	names = m.Float4Attributes()
	sort.Strings(names)
	for _, n := range names {
		fmt.Fprintf(&b, "|4:%s:", n)
		a := m.Float4Attribute(n)
		for i := 0; i < a.Len(); i++ {
			v := a.At(i)
			fmt.Fprintf(&b, "%x/%x/%x/%x,", math.Float64bits(v.X()), math.Float64bits(v.Y()), math.Float64bits(v.Z()), math.Float64bits(v.W()))
		}
	}
	h := sha1.Sum([]byte(b.String()))
	return hex.EncodeToString(h[:8])
}

// one digest per splat: every attribute of point i
func splatRecords(m modeling.Mesh) []string {
	n := m.AttributeLength()
	out := make([]string, n)
	f3 := m.Float3Attributes()
	sort.Strings(f3)
	f4 := m.Float4Attributes()
	sort.Strings(f4)
	f1 := m.Float1Attributes()
	sort.Strings(f1)
	for i := 0; i < n; i++ {
		var b strings.Builder
		for _, name := range f3 {
			v := m.Float3Attribute(name).At(i)
			fmt.Fprintf(&b, "%s:%x/%x/%x|", name, math.Float64bits(v.X()), math.Float64bits(v.Y()), math.Float64bits(v.Z()))
		}
		for _, name := range f4 {
			v := m.Float4Attribute(name).At(i)
			fmt.Fprintf(&b, "%s:%x/%x/%x/%x|", name, math.Float64bits(v.X()), math.Float64bits(v.Y()), math.Float64bits(v.Z()), math.Float64bits(v.W()))
		}
		for _, name := range f1 {
			fmt.Fprintf(&b, "%s:%x|", name, math.Float64bits(m.Float1Attribute(name).At(i)))
		}
		h := sha1.Sum([]byte(b.String()))
		out[i] = hex.EncodeToString(h[:6])
	}
	return out
}

func z(f float64) string {
	if math.IsNaN(f) || math.IsInf(f, 0) || math.Abs(f) > 1e15 {
		return "99999999%Z"
	}
	v := int64(f)
	if v < 0 {
		return fmt.Sprintf("(%d)%%Z", v)
	}
	return fmt.Sprintf("%d%%Z", v)
}

// positions / intensity*255 / colour*255 as exact integers (the generated inputs are small integers)
func ptsResultCoq(m *modeling.Mesh) string {
	n := m.AttributeLength()
	pos := "[]"
	if m.HasFloat3Attribute(modeling.PositionAttribute) {
		p := m.Float3Attribute(modeling.PositionAttribute)
		items := make([]string, p.Len())
		for i := range items {
			v := p.At(i)
			items[i] = fmt.Sprintf("(%s,%s,%s)", z(v.X()), z(v.Y()), z(v.Z()))
		}
		pos = "[" + strings.Join(items, ";") + "]"
	}
	in := "None"
	if m.HasFloat1Attribute(modeling.IntensityAttribute) {
		a := m.Float1Attribute(modeling.IntensityAttribute)
		items := make([]string, a.Len())
		for i := range items {
			items[i] = z(math.Round(a.At(i) * 255))
		}
		in = "(Some [" + strings.Join(items, ";") + "])"
	}
	col := "None"
	if m.HasFloat3Attribute(modeling.ColorAttribute) {
		p := m.Float3Attribute(modeling.ColorAttribute)
		items := make([]string, p.Len())
		for i := range items {
			v := p.At(i)
			items[i] = fmt.Sprintf("(%s,%s,%s)", z(math.Round(v.X()*255)), z(math.Round(v.Y()*255)), z(math.Round(v.Z()*255)))
		}
		col = "(Some [" + strings.Join(items, ";") + "])"
	}
	return fmt.Sprintf("{| p_n := %d; p_pos := %s; p_int := %s; p_col := %s |}", n, pos, in, col)
}

// decodeHere runs the real decoder in this process under recover().
func decodeHere(format string, data []byte, kind int) (o outcome) {
	t0 := time.Now()
	defer func() {
		if rec := recover(); rec != nil {
			if _, isRt := rec.(runtime.Error); isRt {
				o = outcome{Cls: clsCrash, Msg: fmt.Sprint(rec)}
			} else {
				o = outcome{Cls: clsErr, Msg: fmt.Sprint(rec)}
			}
		}
		o.Micros = time.Since(t0).Microseconds()
		if len(o.Msg) > 200 {
			o.Msg = o.Msg[:200]
		}
	}()
	var m *modeling.Mesh
	var err error
	switch format {
	case "stl":
		m, err = stl.ReadMesh(mkReader(kind, data))
	case "ply":
		m, err = ply.ReadMesh(mkReader(kind, data))
	case "pts":
		m, err = pts.ReadPointCloud(mkReader(kind, data))
	case "splat":
		mm, e := splat.Read(mkReader(kind, data))
		o = outcome{Cls: clsOk, HasErr: e != nil, N: mm.AttributeLength(), Recs: splatRecords(mm)}
		if e != nil {
			o.Msg = e.Error()
		}
		return o
	case "spz":
		var c *spz.Cloud
		c, err = spz.Read(mkReader(kind, data))
		if err == nil {
			m = &c.Mesh
		}
	default:
		return outcome{Cls: clsErr, Msg: "unknown format " + format}
	}
	if err != nil {
		return outcome{Cls: clsErr, Msg: err.Error()}
	}
	if m == nil {
		return outcome{Cls: clsCrash, Msg: "nil mesh without an error"}
	}
	o = outcome{Cls: clsOk, N: m.AttributeLength(), Digest: meshDigest(*m)}
	if format == "pts" {
		o.Pts = ptsResultCoq(m)
	}
	return o
}

// ---------- child side ----------
func workerMain() {
	lim := syscall.Rlimit{Cur: memCapBytes, Max: memCapBytes}
	syscall.Setrlimit(syscall.RLIMIT_AS, &lim)
	in := bufio.NewReaderSize(os.Stdin, 1<<16)
	out := bufio.NewWriter(os.Stdout)
	hdr := make([]byte, 5)
	for {
		if _, err := io.ReadFull(in, hdr); err != nil {
			return
		}
		n := binary.LittleEndian.Uint32(hdr[1:])
		data := make([]byte, n)
		if _, err := io.ReadFull(in, data); err != nil {
			return
		}
		o := decodeKinds(formats[int(hdr[0]&15)%len(formats)], data, int(hdr[0]>>4))
		js, _ := json.Marshal(o)
		var l [4]byte
		binary.LittleEndian.PutUint32(l[:], uint32(len(js)))
		out.Write(l[:])
		out.Write(js)
		out.Flush()
	}
}

// ---------- parent side ----------
type worker struct {
	cmd    *exec.Cmd
	in     io.WriteCloser
	out    *bufio.Reader
	stderr *bytes.Buffer
}

type pool struct {
	idle  chan *worker
	mu    sync.Mutex
	hangs int
	died  int
	calls int
}

func newPool(n int) *pool { return &pool{idle: make(chan *worker, n)} }

func spawn() (*worker, error) {
	exe, err := os.Executable()
	if err != nil {
		return nil, err
	}
	cmd := exec.Command(exe, "-worker")
	cmd.Env = append(os.Environ(), "GOTRACEBACK=none", "GOMAXPROCS=2")
	in, _ := cmd.StdinPipe()
	outp, _ := cmd.StdoutPipe()
	w := &worker{cmd: cmd, in: in, out: bufio.NewReaderSize(outp, 1<<16), stderr: &bytes.Buffer{}}
	cmd.Stderr = w.stderr
	if err := cmd.Start(); err != nil {
		return nil, err
	}
	return w, nil
}

func (w *worker) kill() {
	w.in.Close()
	w.cmd.Process.Kill()
	w.cmd.Wait()
}

func deadlineFor(n int) time.Duration {
	// the property: time proportional to the input -- 2 s + 1 us per byte
	return 2*time.Second + time.Duration(n)*time.Microsecond
}

func fmtCode(format string) byte {
	for i, f := range formats {
		if f == format {
			return byte(i)
		}
	}
	return 255
}

// peak resident set of a live process, MB
func vmHWM(pid int) int64 {
	raw, err := os.ReadFile(fmt.Sprintf("/proc/%d/status", pid))
	if err != nil {
		return -1
	}
	for _, l := range strings.Split(string(raw), "\n") {
		if strings.HasPrefix(l, "VmHWM:") {
			f := strings.Fields(l)
			if len(f) >= 2 {
				kb, _ := strconv.ParseInt(f[1], 10, 64)
				return kb / 1024
			}
		}
	}
	return -1
}

// roundTrip sends one request to w; ok=false means w must not be reused (killed or dead).
func (p *pool) roundTrip(w *worker, format string, data []byte, wantPeak bool, kind int) (o outcome, ok bool) {
	type ans struct {
		o   outcome
		err error
	}
	ch := make(chan ans, 1)
	go func() {
		hdr := make([]byte, 5)
		hdr[0] = fmtCode(format) | byte(kind)<<4
		binary.LittleEndian.PutUint32(hdr[1:], uint32(len(data)))
		if _, err := w.in.Write(append(hdr, data...)); err != nil {
			ch <- ans{err: err}
			return
		}
		var l [4]byte
		if _, err := io.ReadFull(w.out, l[:]); err != nil {
			ch <- ans{err: err}
			return
		}
		js := make([]byte, binary.LittleEndian.Uint32(l[:]))
		if _, err := io.ReadFull(w.out, js); err != nil {
			ch <- ans{err: err}
			return
		}
		var o outcome
		err := json.Unmarshal(js, &o)
		ch <- ans{o: o, err: err}
	}()
	select {
	case a := <-ch:
		if a.err != nil {
			// the child died: Go's out-of-memory is a fatal error, not a panic
			w.in.Close()
			w.cmd.Wait()
			msg := strings.TrimSpace(w.stderr.String())
			if i := strings.Index(msg, "\n\n"); i > 0 {
				msg = msg[:i]
			}
			if len(msg) > 200 {
				msg = msg[:200]
			}
			o = outcome{Cls: clsCrash, Msg: "decoding process died: " + strings.ReplaceAll(msg, "\n", " / ")}
			if ru, isRu := w.cmd.ProcessState.SysUsage().(*syscall.Rusage); isRu && ru != nil {
				o.PeakMB = ru.Maxrss / 1024
			}
			p.mu.Lock()
			p.died++
			p.mu.Unlock()
			return o, false
		}
		if wantPeak {
			a.o.PeakMB = vmHWM(w.cmd.Process.Pid)
		}
		return a.o, true
	case <-time.After(deadlineFor(len(data))):
		peak := vmHWM(w.cmd.Process.Pid)
		w.kill()
		p.mu.Lock()
		p.hangs++
		p.mu.Unlock()
		return outcome{Cls: clsHang, Msg: "deadline exceeded", PeakMB: peak}, false
	}
}

// decode runs one decode in a pooled child process under the deadline.
func (p *pool) decode(format string, data []byte) outcome {
	o := p.decodeKind(format, data, kindAll)
	if o.Cls == clsHang {
		// which reader kind misses the deadline?
		for k := range readerKinds {
			if ok := p.decodeKind(format, data, k); ok.Cls == clsHang {
				o.Msg = readerKinds[k] + ": deadline exceeded"
				break
			}
		}
	}
	return o
}

func (p *pool) decodeKind(format string, data []byte, kind int) outcome {
	p.mu.Lock()
	p.calls++
	p.mu.Unlock()
	var w *worker
	select {
	case w = <-p.idle:
	default:
		var err error
		if w, err = spawn(); err != nil {
			return outcome{Cls: clsCrash, Msg: "cannot start decoding process: " + err.Error()}
		}
	}
	o, ok := p.roundTrip(w, format, data, false, kind)
	if ok {
		select {
		case p.idle <- w:
		default:
			w.kill()
		}
	}
	return o
}

// decodeFresh uses a process of its own and reports its peak resident memory.
func (p *pool) decodeFresh(format string, data []byte) outcome {
	w, err := spawn()
	if err != nil {
		return outcome{Cls: clsCrash, Msg: "cannot start decoding process: " + err.Error()}
	}
	o, ok := p.roundTrip(w, format, data, true, kindAll)
	if ok {
		w.kill()
	}
	return o
}

func (p *pool) close() {
	for {
		select {
		case w := <-p.idle:
			w.kill()
		default:
			return
		}
	}
}

// decodeAll decodes data[:k] for every k of cuts, in parallel, results in cut order.
func (p *pool) decodeAll(format string, data []byte, cuts []int, par int) []outcome {
	out := make([]outcome, len(cuts))
	var wg sync.WaitGroup
	sem := make(chan struct{}, par)
	for i, k := range cuts {
		wg.Add(1)
		sem <- struct{}{}
		go func(i, k int) {
			defer wg.Done()
			defer func() { <-sem }()
			out[i] = p.decode(format, data[:k])
		}(i, k)
	}
	wg.Wait()
	return out
}
