// Decoding in child processes.  The harness re-executes itself with "-worker": the child caps its address space
// (RLIMIT_AS), then answers decode requests on stdin/stdout.  The parent applies the deadline; a child that
// misses it is killed (class hang), a child that dies (Go's "fatal error: out of memory" cannot be recovered) is
// class crash.  Observables (digest, counts, the PTS result as a Coq term) are computed in the child so that only
// small answers cross the pipe.
package main

import (
	"bufio"
	"bytes"
	"crypto/sha1"
	"encoding/binary"
	"encoding/hex"
	"encoding/json"
	"fmt"
	"io"
	"math"
	"os"
	"os/exec"
	"runtime"
	"sort"
	"strconv"
	"strings"
	"sync"
	"syscall"
	"testing/iotest"
	"time"

	"github.com/EliCDavis/polyform/formats/ply"
	"github.com/EliCDavis/polyform/formats/pts"
	"github.com/EliCDavis/polyform/formats/splat"
	"github.com/EliCDavis/polyform/formats/spz"
	"github.com/EliCDavis/polyform/formats/stl"
	"github.com/EliCDavis/polyform/modeling"
)

const (
	clsOk    = 0
	clsErr   = 1 // error return or panic(err) with a non-runtime error: a reported failure
	clsCrash = 2 // runtime.Error panic, or the decoding process died (out of memory)
	clsHang  = 3 // deadline exceeded
	clsDep   = 4 // the result depends on the kind of io.Reader the bytes come from
)

// Reader kinds: every decode is repeated with each of them; the result must not depend on it.
// In-memory readers exposing Len()/Seek/ReadAt, and opaque streaming readers that only have Read.
var readerKinds = []string{"bytes.Reader", "bytes.Buffer", "strings.Reader", "opaque io.Reader (no Len)",
	"iotest.OneByteReader", "iotest.HalfReader", "iotest.DataErrReader", "file on disk (Load / bufio.Reader over *os.File)"}

const kindFile = 7
const kindAll = 15 // every reader kind
const kindBig = 14 // big files: bytes.Reader, opaque reader, file on disk

var bigKinds = []int{0, 3, kindFile}

func mkReader(kind int, data []byte) io.Reader {
	switch kind {
	case 1:
		return bytes.NewBuffer(append([]byte(nil), data...))
	case 2:
		return strings.NewReader(string(data))
	case 3:
		return struct{ io.Reader }{bytes.NewReader(data)}
	case 4:
		return iotest.OneByteReader(bytes.NewReader(data))
	case 5:
		return iotest.HalfReader(bytes.NewReader(data))
	case 6:
		return iotest.DataErrReader(bytes.NewReader(data))
	}
	return bytes.NewReader(data)
}

func sameObservables(a, b outcome) bool {
	if a.Cls != b.Cls || a.N != b.N || a.Digest != b.Digest || a.HasErr != b.HasErr || a.Pts != b.Pts || len(a.Recs) != len(b.Recs) {
		return false
	}
	for i := range a.Recs {
		if a.Recs[i] != b.Recs[i] {
			return false
		}
	}
	return true
}

// decodeKinds decodes with one reader kind, or (kindAll) with every kind and folds the outcomes: identical ->
// that outcome; a crash under some reader -> that crash; otherwise class clsDep.
func decodeKinds(format string, data []byte, kind int) outcome {
	var kinds []int
	switch kind {
	case kindAll:
		for k := range readerKinds {
			kinds = append(kinds, k)
		}
	case kindBig:
		kinds = bigKinds
	default:
		return decodeHere(format, data, kind)
	}
	first := decodeHere(format, data, kinds[0])
	total, totalCPU, totalSys := first.Micros, first.CpuUs, first.SysUs
	for _, k := range kinds[1:] {
		o := decodeHere(format, data, k)
		if o.Cls == clsCrash && strings.HasPrefix(o.Msg, "harness:") {
			continue // the temporary file could not be written (full tmpfs): this reader kind is skipped, not judged
		}
		total += o.Micros
		totalCPU += o.CpuUs
		totalSys += o.SysUs
		if sameObservables(first, o) {
			continue
		}
		if o.Cls == clsCrash {
			o.Msg = readerKinds[k] + ": " + o.Msg
			return o
		}
		if first.Cls == clsCrash {
			first.Msg = readerKinds[0] + ": " + first.Msg
			return first
		}
		return outcome{Cls: clsDep, N: o.N, Micros: total,
			Msg: fmt.Sprintf("result depends on the reader: %s -> class %d (%d vertices), %s -> class %d (%d vertices)",
				readerKinds[0], first.Cls, first.N, readerKinds[k], o.Cls, o.N)}
	}
	first.Micros = total
	return first
}

const memCapBytes = 3 << 30 // address-space cap of a decoding process

// "plyc": ply.MeshReader with a caller-made configuration (no LoadUnspecifiedProperties, own property list);
// "spzh": spz.ReadHeader (gzip + the 16 header bytes only)
var formats = []string{"stl", "ply", "pts", "splat", "spz", "plyc", "spzh"}

type outcome struct {
	Cls     int      `json:"cls"`
	Msg     string   `json:"msg,omitempty"`
	HasErr  bool     `json:"has_err,omitempty"` // .splat returns data AND an error
	N       int      `json:"n"`                 // AttributeLength of the returned mesh
	Digest  string   `json:"digest,omitempty"`  // bit-exact digest of the returned mesh
	Recs    []string `json:"recs,omitempty"`    // .splat: one digest per returned splat
	Pts     string   `json:"pts,omitempty"`     // pts: the result as a Coq term of type pts_result
	Micros  int64    `json:"us"`                // decode wall time measured inside the child
	CpuUs   int64    `json:"cpu_us"`            // CPU time (user+system, whole process) of the decode: robust to machine load
	SysUs   int64    `json:"sys_us"`            // system time of the decode (reported, not judged)
	Over    bool     `json:"-"`                 // parent only: the CPU budget was used up without an answer
	Starved bool     `json:"-"`                 // parent only: no answer within the wall limit although the CPU budget was not used up
	PeakMB  int64    `json:"peak_mb,omitempty"` // filled in by the parent for hostile cases
}

// ---------- canonical digest of a mesh (bit-exact) ----------
// topology, indices, and the bit pattern of every value of every attribute (names sorted); binary encoding, one
// hash at the end: a decode of a megabyte file is digested in a few milliseconds
func f64(b []byte, v float64) []byte { return binary.LittleEndian.AppendUint64(b, math.Float64bits(v)) }

func meshDigest(m modeling.Mesh) string {
	b := make([]byte, 0, 1<<12)
	b = append(b, fmt.Sprintf("T%d|I", int(m.Topology()))...)
	idx := m.Indices()
	for i := 0; i < idx.Len(); i++ {
		b = binary.AppendVarint(b, int64(idx.At(i)))
	}
	names := m.Float1Attributes()
	sort.Strings(names)
	for _, n := range names {
		a := m.Float1Attribute(n)
		b = append(b, fmt.Sprintf("|1:%s:%d:", n, a.Len())...)
		for i := 0; i < a.Len(); i++ {
			b = f64(b, a.At(i))
		}
	}
	names = m.Float2Attributes()
	sort.Strings(names)
	for _, n := range names {
		a := m.Float2Attribute(n)
		b = append(b, fmt.Sprintf("|2:%s:%d:", n, a.Len())...)
		for i := 0; i < a.Len(); i++ {
			v := a.At(i)
			b = f64(f64(b, v.X()), v.Y())
		}
	}
	names = m.Float3Attributes()
	sort.Strings(names)
	for _, n := range names {
		a := m.Float3Attribute(n)
		b = append(b, fmt.Sprintf("|3:%s:%d:", n, a.Len())...)
		for i := 0; i < a.Len(); i++ {
			v := a.At(i)
			b = f64(f64(f64(b, v.X()), v.Y()), v.Z())
		}
	}
	names = m.Float4Attributes()
	sort.Strings(names)
	for _, n := range names {
		a := m.Float4Attribute(n)
		b = append(b, fmt.Sprintf("|4:%s:%d:", n, a.Len())...)
		for i := 0; i < a.Len(); i++ {
			v := a.At(i)
			b = f64(f64(f64(f64(b, v.X()), v.Y()), v.Z()), v.W())
		}
	}
	h := sha1.Sum(b)
	return hex.EncodeToString(h[:8])
}

// one digest per splat: the bit patterns of every attribute of point i (64-bit FNV-1a; attribute names sorted)
func splatRecords(m modeling.Mesh) []string {
	n := m.AttributeLength()
	out := make([]string, n)
	f3 := m.Float3Attributes()
	sort.Strings(f3)
	f4 := m.Float4Attributes()
	sort.Strings(f4)
	f1 := m.Float1Attributes()
	sort.Strings(f1)
	mix := func(h uint64, v float64) uint64 {
		w := math.Float64bits(v)
		for s := 0; s < 64; s += 8 {
			h = (h ^ (w >> s & 0xff)) * 1099511628211
		}
		return h
	}
	for i := 0; i < n; i++ {
		h := uint64(14695981039346656037)
		for k, name := range f3 {
			v := m.Float3Attribute(name).At(i)
			h = mix(mix(mix(h^uint64(k+1), v.X()), v.Y()), v.Z())
		}
		for k, name := range f4 {
			v := m.Float4Attribute(name).At(i)
			h = mix(mix(mix(mix(h^uint64(k+101), v.X()), v.Y()), v.Z()), v.W())
		}
		for k, name := range f1 {
			h = mix(h^uint64(k+201), m.Float1Attribute(name).At(i))
		}
		out[i] = strconv.FormatUint(h, 36)
	}
	return out
}

func z(f float64) string {
	if math.IsNaN(f) || math.IsInf(f, 0) || math.Abs(f) > 1e15 {
		return "99999999%Z"
	}
	v := int64(f)
	if v < 0 {
		return fmt.Sprintf("(%d)%%Z", v)
	}
	return fmt.Sprintf("%d%%Z", v)
}

// positions / intensity*255 / colour*255 as exact integers (the generated inputs are small integers)
func ptsResultCoq(m *modeling.Mesh) string {
	n := m.AttributeLength()
	pos := "[]"
	if m.HasFloat3Attribute(modeling.PositionAttribute) {
		p := m.Float3Attribute(modeling.PositionAttribute)
		items := make([]string, p.Len())
		for i := range items {
			v := p.At(i)
			items[i] = fmt.Sprintf("(%s,%s,%s)", z(v.X()), z(v.Y()), z(v.Z()))
		}
		pos = "[" + strings.Join(items, ";") + "]"
	}
	in := "None"
	if m.HasFloat1Attribute(modeling.IntensityAttribute) {
		a := m.Float1Attribute(modeling.IntensityAttribute)
		items := make([]string, a.Len())
		for i := range items {
			items[i] = z(math.Round(a.At(i) * 255))
		}
		in = "(Some [" + strings.Join(items, ";") + "])"
	}
	col := "None"
	if m.HasFloat3Attribute(modeling.ColorAttribute) {
		p := m.Float3Attribute(modeling.ColorAttribute)
		items := make([]string, p.Len())
		for i := range items {
			v := p.At(i)
			items[i] = fmt.Sprintf("(%s,%s,%s)", z(math.Round(v.X()*255)), z(math.Round(v.Y()*255)), z(math.Round(v.Z()*255)))
		}
		col = "(Some [" + strings.Join(items, ";") + "])"
	}
	return fmt.Sprintf("{| p_n := %d; p_pos := %s; p_int := %s; p_col := %s |}", n, pos, in, col)
}

// the caller-made PLY reader configuration of format "plyc" (MeshReader.Read / MeshReader.Load with
// LoadUnspecifiedProperties off and its own property list)
var customPly = ply.MeshReader{
	AttributeElement:          ply.VertexElementName,
	LoadUnspecifiedProperties: false,
	Properties: []ply.PropertyReader{
		&ply.Vector3PropertyReader{ModelAttribute: "P", PlyPropertyX: "x", PlyPropertyY: "y", PlyPropertyZ: "z"},
		&ply.Vector2PropertyReader{ModelAttribute: "ST", PlyPropertyX: "s", PlyPropertyY: "t"},
		&ply.Vector1PropertyReader{ModelAttribute: "Label", PlyProperty: "label"},
		&ply.Vector1PropertyReader{ModelAttribute: "Quality", PlyProperty: "quality"},
		&ply.Vector4PropertyReader{ModelAttribute: "RGBA", PlyPropertyX: "red", PlyPropertyY: "green", PlyPropertyZ: "blue", PlyPropertyW: "alpha"},
	},
}

// user CPU time of this process so far (system time is charged with the kernel's work under memory pressure and is
// left out of the judgement; it is reported separately)
func selfCPU() int64 {
	var ru syscall.Rusage
	if syscall.Getrusage(syscall.RUSAGE_SELF, &ru) != nil {
		return 0
	}
	return ru.Utime.Sec*1e6 + int64(ru.Utime.Usec)
}
func selfSys() int64 {
	var ru syscall.Rusage
	if syscall.Getrusage(syscall.RUSAGE_SELF, &ru) != nil {
		return 0
	}
	return ru.Stime.Sec*1e6 + int64(ru.Stime.Usec)
}

var tmpSeq int

// the prefix as a file on disk (reader kind "file"): the path-taking entry points open it themselves
func writeTemp(data []byte) (string, error) {
	tmpSeq++
	var path string
	var err error
	for _, dir := range []string{os.Getenv("C14_TMP"), os.TempDir()} {
		if dir == "" {
			continue
		}
		path = fmt.Sprintf("%s/c14-%d-%d.bin", dir, os.Getpid(), tmpSeq%2)
		if err = os.WriteFile(path, data, 0o600); err == nil {
			return path, nil
		}
		os.Remove(path)
	}
	return path, err
}

// decodeHere runs the real decoder in this process under recover().
func decodeHere(format string, data []byte, kind int) (o outcome) {
	t0 := time.Now()
	c0, s0 := selfCPU(), selfSys()
	var tmpPath string
	defer func() {
		if rec := recover(); rec != nil {
			if _, isRt := rec.(runtime.Error); isRt {
				o = outcome{Cls: clsCrash, Msg: fmt.Sprint(rec)}
			} else {
				o = outcome{Cls: clsErr, Msg: fmt.Sprint(rec)}
			}
		}
		if tmpPath != "" {
			os.Remove(tmpPath)
		}
		o.Micros = time.Since(t0).Microseconds()
		o.CpuUs = selfCPU() - c0
		o.SysUs = selfSys() - s0
		if len(o.Msg) > 200 {
			o.Msg = o.Msg[:200]
		}
	}()
	var m *modeling.Mesh
	var err error
	var rd io.Reader
	if kind == kindFile {
		var werr error
		if tmpPath, werr = writeTemp(data); werr != nil {
			return outcome{Cls: clsCrash, Msg: "harness: cannot write the temporary file: " + werr.Error()}
		}
		switch format {
		case "pts", "splat", "spzh": // no path-taking entry point: what such a Load would do
			f, oerr := os.Open(tmpPath)
			if oerr != nil {
				return outcome{Cls: clsCrash, Msg: "harness: " + oerr.Error()}
			}
			defer f.Close()
			rd = bufio.NewReader(f)
		}
	} else {
		rd = mkReader(kind, data)
	}
	switch format {
	case "stl":
		if kind == kindFile {
			m, err = stl.Load(tmpPath)
		} else {
			m, err = stl.ReadMesh(rd)
		}
	case "ply":
		if kind == kindFile {
			m, err = ply.Load(tmpPath)
		} else {
			m, err = ply.ReadMesh(rd)
		}
	case "plyc":
		if kind == kindFile {
			m, err = customPly.Load(tmpPath)
		} else {
			m, err = customPly.Read(rd)
		}
	case "pts":
		m, err = pts.ReadPointCloud(rd)
	case "splat":
		mm, e := splat.Read(rd)
		o = outcome{Cls: clsOk, HasErr: e != nil, N: mm.AttributeLength(), Recs: splatRecords(mm)}
		if e != nil {
			o.Msg = e.Error()
		}
		return o
	case "spz":
		var c *spz.Cloud
		if kind == kindFile {
			c, err = spz.Load(tmpPath) // panics with the error: class "reported"
		} else {
			c, err = spz.Read(rd)
		}
		if err == nil {
			m = &c.Mesh
		}
	case "spzh":
		h, herr := spz.ReadHeader(rd)
		if herr != nil {
			return outcome{Cls: clsErr, Msg: herr.Error()}
		}
		if h == nil {
			return outcome{Cls: clsCrash, Msg: "nil header without an error"}
		}
		return outcome{Cls: clsOk, N: int(h.NumPoints), Digest: fmt.Sprintf("%+v", *h)}
	default:
		return outcome{Cls: clsErr, Msg: "unknown format " + format}
	}
	if err != nil {
		return outcome{Cls: clsErr, Msg: err.Error()}
	}
	if m == nil {
		return outcome{Cls: clsCrash, Msg: "nil mesh without an error"}
	}
	o = outcome{Cls: clsOk, N: m.AttributeLength(), Digest: meshDigest(*m)}
	if format == "pts" && len(data) < 1<<16 {
		o.Pts = ptsResultCoq(m)
	}
	return o
}

// ---------- child side ----------
func workerMain() {
	lim := syscall.Rlimit{Cur: memCapBytes, Max: memCapBytes}
	syscall.Setrlimit(syscall.RLIMIT_AS, &lim)
	in := bufio.NewReaderSize(os.Stdin, 1<<16)
	out := bufio.NewWriter(os.Stdout)
	hdr := make([]byte, 5)
	for {
		if _, err := io.ReadFull(in, hdr); err != nil {
			return
		}
		n := binary.LittleEndian.Uint32(hdr[1:])
		data := make([]byte, n)
		if _, err := io.ReadFull(in, data); err != nil {
			return
		}
		o := decodeKinds(formats[int(hdr[0]&15)%len(formats)], data, int(hdr[0]>>4))
		js, _ := json.Marshal(o)
		var l [4]byte
		binary.LittleEndian.PutUint32(l[:], uint32(len(js)))
		out.Write(l[:])
		out.Write(js)
		out.Flush()
	}
}

// ---------- parent side ----------
type worker struct {
	cmd    *exec.Cmd
	in     io.WriteCloser
	out    *bufio.Reader
	stderr *bytes.Buffer
}

type pool struct {
	idle    chan *worker
	mu      sync.Mutex
	iso     sync.RWMutex // a decode that got no answer in time without using its CPU budget is retried alone
	hangs   int
	died    int
	calls   int
	starved int // decodes retried in isolation because the machine was too busy to answer within the wall limit
}

func newPool(n int) *pool {
	return &pool{idle: make(chan *worker, n)}
}

// directory for the prefixes handed to the path-taking entry points (reader kind "file"); made on first use by the
// parent, removed by pool.close
var poolTmp string
var poolTmpOnce sync.Once

func tmpDir() string {
	poolTmpOnce.Do(func() {
		for _, d := range []string{"/dev/shm", os.TempDir()} {
			if t, err := os.MkdirTemp(d, "c14-"); err == nil {
				poolTmp = t
				return
			}
		}
	})
	return poolTmp
}

func spawn() (*worker, error) {
	exe, err := os.Executable()
	if err != nil {
		return nil, err
	}
	cmd := exec.Command(exe, "-worker")
	cmd.Env = append(os.Environ(), "GOTRACEBACK=none", "GOMAXPROCS=2", "C14_TMP="+tmpDir())
	in, _ := cmd.StdinPipe()
	outp, _ := cmd.StdoutPipe()
	w := &worker{cmd: cmd, in: in, out: bufio.NewReaderSize(outp, 1<<16), stderr: &bytes.Buffer{}}
	cmd.Stderr = w.stderr
	if err := cmd.Start(); err != nil {
		return nil, err
	}
	return w, nil
}

func (w *worker) kill() {
	w.in.Close()
	w.cmd.Process.Kill()
	w.cmd.Wait()
}

// The property: time proportional to the input.  The budget is CPU time of the decoding process (read from
// /proc/<pid>/stat), which does not depend on how many other processes share the machine: 1 s + 1 us per byte and
// reader kind of user time (four times that for user + system).  A decoder that loops burns the budget.  Wall-clock
// time is only an inactivity limit (30 s + 10 us/byte).  Either way the first miss is not yet an observation: the
// decode is retried once, alone, in a fresh process (twice the wall limit), and only a second miss is class "hang".
func cpuBudgetFor(n int) time.Duration {
	return time.Second + time.Duration(n)*time.Duration(len(readerKinds))*time.Microsecond
}
func wallLimitFor(n int) time.Duration {
	return 30*time.Second + time.Duration(n)*10*time.Microsecond
}
func deadlineFor(n int) time.Duration { return cpuBudgetFor(n) }

// CPU time a live process has used so far: user, and user + system.  ok = false: /proc could not be read (the
// caller then skips the check for this tick instead of comparing with a wrong base).
func procCPU(pid int) (user, total time.Duration, ok bool) {
	raw, err := os.ReadFile(fmt.Sprintf("/proc/%d/stat", pid))
	if err != nil {
		return 0, 0, false
	}
	s := string(raw)
	i := strings.LastIndexByte(s, ')')
	if i < 0 {
		return 0, 0, false
	}
	f := strings.Fields(s[i+1:]) // f[0] = state; utime, stime are fields 14, 15 of the line = f[11], f[12]
	if len(f) < 13 {
		return 0, 0, false
	}
	ut, e1 := strconv.ParseInt(f[11], 10, 64)
	st, e2 := strconv.ParseInt(f[12], 10, 64)
	if e1 != nil || e2 != nil {
		return 0, 0, false
	}
	const tick = 10 * time.Millisecond // USER_HZ = 100
	return time.Duration(ut) * tick, time.Duration(ut+st) * tick, true
}

func fmtCode(format string) byte {
	for i, f := range formats {
		if f == format {
			return byte(i)
		}
	}
	return 255
}

// peak resident set of a live process, MB
func vmHWM(pid int) int64 {
	raw, err := os.ReadFile(fmt.Sprintf("/proc/%d/status", pid))
	if err != nil {
		return -1
	}
	for _, l := range strings.Split(string(raw), "\n") {
		if strings.HasPrefix(l, "VmHWM:") {
			f := strings.Fields(l)
			if len(f) >= 2 {
				kb, _ := strconv.ParseInt(f[1], 10, 64)
				return kb / 1024
			}
		}
	}
	return -1
}

// roundTrip sends one request to w; ok=false means w must not be reused (killed or dead).
func (p *pool) roundTrip(w *worker, format string, data []byte, wantPeak bool, kind int, wallFactor int) (o outcome, ok bool) {
	type ans struct {
		o   outcome
		err error
	}
	ch := make(chan ans, 1)
	go func() {
		hdr := make([]byte, 5)
		hdr[0] = fmtCode(format) | byte(kind)<<4
		binary.LittleEndian.PutUint32(hdr[1:], uint32(len(data)))
		if _, err := w.in.Write(append(hdr, data...)); err != nil {
			ch <- ans{err: err}
			return
		}
		var l [4]byte
		if _, err := io.ReadFull(w.out, l[:]); err != nil {
			ch <- ans{err: err}
			return
		}
		js := make([]byte, binary.LittleEndian.Uint32(l[:]))
		if _, err := io.ReadFull(w.out, js); err != nil {
			ch <- ans{err: err}
			return
		}
		var o outcome
		err := json.Unmarshal(js, &o)
		ch <- ans{o: o, err: err}
	}()
	var u0, t0 time.Duration
	ok0 := false
	for try := 0; try < 5 && !ok0; try++ { // the base of the CPU measurement: this process is reused, it must be right
		if u0, t0, ok0 = procCPU(w.cmd.Process.Pid); !ok0 {
			time.Sleep(2 * time.Millisecond)
		}
	}
	start := time.Now()
	budget, wall := cpuBudgetFor(len(data)), time.Duration(wallFactor)*wallLimitFor(len(data))
	tick := time.NewTicker(50 * time.Millisecond)
	defer tick.Stop()
	for {
		select {
		case a := <-ch:
			if a.err != nil {
				// the child died: Go's out-of-memory is a fatal error, not a panic
				w.in.Close()
				w.cmd.Wait()
				msg := strings.TrimSpace(w.stderr.String())
				if i := strings.Index(msg, "\n\n"); i > 0 {
					msg = msg[:i]
				}
				if len(msg) > 200 {
					msg = msg[:200]
				}
				o = outcome{Cls: clsCrash, Msg: "decoding process died: " + strings.ReplaceAll(msg, "\n", " / ")}
				if ru, isRu := w.cmd.ProcessState.SysUsage().(*syscall.Rusage); isRu && ru != nil {
					o.PeakMB = ru.Maxrss / 1024
				}
				p.mu.Lock()
				p.died++
				p.mu.Unlock()
				return o, false
			}
			if wantPeak {
				a.o.PeakMB = vmHWM(w.cmd.Process.Pid)
			}
			return a.o, true
		case <-tick.C:
			u, t, ok := procCPU(w.cmd.Process.Pid)
			var used, usedAll time.Duration
			if ok && ok0 {
				used, usedAll = u-u0, t-t0
			}
			// user time is the budget; system time is charged with the kernel's work under memory pressure
			// (reclaim, contention), so the sum only counts at four times the budget
			if used > budget || usedAll > 4*budget {
				peak := vmHWM(w.cmd.Process.Pid)
				w.kill()
				return outcome{Cls: clsHang, Over: true, PeakMB: peak, CpuUs: usedAll.Microseconds(),
					Msg: fmt.Sprintf("deadline exceeded: %.1f s of CPU time (%.1f s user) used for %d bytes (budget %.1f s), no result", usedAll.Seconds(), used.Seconds(), len(data), budget.Seconds())}, false
			}
			if time.Since(start) > wall {
				peak := vmHWM(w.cmd.Process.Pid)
				w.kill()
				return outcome{Cls: clsHang, Starved: true, PeakMB: peak, CpuUs: usedAll.Microseconds(),
					Msg: fmt.Sprintf("deadline exceeded: no result within %.0f s of wall time (%.2f s of CPU time used, not spinning: blocked)", wall.Seconds(), usedAll.Seconds())}, false
			}
		}
	}
}

// decode runs one decode in a pooled child process under the deadline.
func (p *pool) decode(format string, data []byte) outcome {
	return p.decodeWith(format, data, kindAll)
}

func (p *pool) decodeWith(format string, data []byte, kinds int) outcome {
	o := p.decodeKind(format, data, kinds)
	if o.Cls == clsHang && !o.Starved && kinds >= kindBig {
		// which reader kind misses the deadline?
		ks := bigKinds
		if kinds == kindAll {
			ks = nil
			for k := range readerKinds {
				ks = append(ks, k)
			}
		}
		for _, k := range ks {
			if ok := p.decodeKind(format, data, k); ok.Cls == clsHang {
				o.Msg = readerKinds[k] + ": " + ok.Msg
				break
			}
		}
	}
	return o
}

func (p *pool) decodeKind(format string, data []byte, kind int) outcome {
	p.mu.Lock()
	p.calls++
	p.mu.Unlock()
	var w *worker
	select {
	case w = <-p.idle:
	default:
		var err error
		if w, err = spawn(); err != nil {
			return outcome{Cls: clsCrash, Msg: "cannot start decoding process: " + err.Error()}
		}
	}
	p.iso.RLock()
	o, ok := p.roundTrip(w, format, data, false, kind, 1)
	p.iso.RUnlock()
	if ok {
		select {
		case p.idle <- w:
		default:
			w.kill()
		}
	}
	if o.Starved || o.Over {
		o = p.retryAlone(format, data, false, kind)
	}
	return o
}

// retryAlone: the decode got no answer -- within the wall limit without using its CPU budget (a busy machine), or it
// used up the budget (a loop, or a machine under such memory pressure that a tiny decode is charged seconds).  Not
// yet an observation about the decoder: wait until no other decode of this harness runs, then try once more in a
// fresh process with twice the wall limit; what happens then is the observation.
func (p *pool) retryAlone(format string, data []byte, wantPeak bool, kind int) outcome {
	p.mu.Lock()
	p.starved++
	p.mu.Unlock()
	p.iso.Lock()
	defer p.iso.Unlock()
	w, err := spawn()
	if err != nil {
		return outcome{Cls: clsCrash, Msg: "cannot start decoding process: " + err.Error()}
	}
	o, ok := p.roundTrip(w, format, data, wantPeak, kind, 2)
	if ok {
		w.kill()
	}
	p.mu.Lock()
	if o.Starved {
		p.hangs += hangLimit // a blocked decoder: one confirmed observation is enough
	} else if o.Over && kind >= kindBig { // (the per-kind decodes that name the reader are not counted again)
		p.hangs++
	}
	p.mu.Unlock()
	return o
}

// decodeFresh uses a process of its own and reports its peak resident memory.
func (p *pool) decodeFresh(format string, data []byte) outcome {
	w, err := spawn()
	if err != nil {
		return outcome{Cls: clsCrash, Msg: "cannot start decoding process: " + err.Error()}
	}
	p.iso.RLock()
	// three reader kinds (in-memory, opaque, file): the peak of resident memory is judged, and eight decodes that each
	// allocate by the announced count would add up in one process
	o, ok := p.roundTrip(w, format, data, true, kindBig, 1)
	p.iso.RUnlock()
	if ok {
		w.kill()
	}
	if o.Starved || o.Over {
		o = p.retryAlone(format, data, true, kindBig)
	}
	return o
}

func (p *pool) close() {
	for {
		select {
		case w := <-p.idle:
			w.kill()
		default:
			if poolTmp != "" {
				os.RemoveAll(poolTmp)
			}
			return
		}
	}
}

// decodeAll decodes data[:k] for every k of cuts, in parallel, results in cut order.
func (p *pool) decodeAll(format string, data []byte, cuts []int, par int, kinds int) []outcome {
	out := make([]outcome, len(cuts))
	var wg sync.WaitGroup
	sem := make(chan struct{}, par)
	for i, k := range cuts {
		wg.Add(1)
		sem <- struct{}{}
		go func(i, k int) {
			defer wg.Done()
			defer func() { <-sem }()
			out[i] = p.decodeWith(format, data[:k], kinds)
		}(i, k)
	}
	wg.Wait()
	return out
}
