// Big files: record counts past the internal thresholds a reader may have (chunks of 4096 / 8192 records, worker
// pools that start at 32768 records, 16-bit counters, bufio's 4096-byte buffer and 64 KiB token limit, capacity
// hints of 1<<16).  Such files are described by a recipe (format, layout, count, seed) and regenerated on replay;
// their cuts are sampled: around every block boundary in records and in bytes, inside records and scalars there,
// header, last bytes, and a pseudo-random spread.  They are judged by the direct oracle only (no Coq model of a
// megabyte of bytes): Check.C14 CFramed / CSplatBig.
package main

import (
	"bytes"
	"compress/gzip"
	"encoding/binary"
	"fmt"
	"math"
	"sort"
	"strconv"

	"verif/harness/hx"
)

type bigGen struct {
	Format string `json:"format"` // stl | ply | pts | splat | spz
	Sub    string `json:"sub"`    // ply: ascii|le|be + "-cloud"|"-mesh"; pts: columns; spz: v1|v2-sh<d>-stored|deflate
	N      int    `json:"n"`      // records (vertices / triangles / points / splats)
	Seed   uint64 `json:"seed"`
}

// the thresholds the counts are chosen around
var bigSizes = []int{4097, 8193, 9001, 32769, 65537, 70001}

type bigFile struct {
	data    []byte
	recOff  []int // byte offset of record i (vertex / triangle / line / splat); len = N+1 (end of the last one)
	recOff2 []int // second element (PLY faces)
	ascii   bool
}

func putF32(b []byte, be bool, v float32) []byte {
	var w [4]byte
	if be {
		binary.BigEndian.PutUint32(w[:], math.Float32bits(v))
	} else {
		binary.LittleEndian.PutUint32(w[:], math.Float32bits(v))
	}
	return append(b, w[:]...)
}
func putU32(b []byte, be bool, v uint32) []byte {
	var w [4]byte
	if be {
		binary.BigEndian.PutUint32(w[:], v)
	} else {
		binary.LittleEndian.PutUint32(w[:], v)
	}
	return append(b, w[:]...)
}

// never 0, exactly representable
func bigVal(r *hx.Rng) float32 { return float32(2*r.Range(-2000, 2000)+1) / 8 }

func genBig(g bigGen) bigFile {
	r := hx.NewRng(g.Seed ^ uint64(g.N)*977)
	var f bigFile
	n := g.N
	switch g.Format {
	case "stl":
		out := make([]byte, 80, 84+50*n)
		copy(out, "c14 big stl")
		out = putU32(out, false, uint32(n))
		for i := 0; i < n; i++ {
			f.recOff = append(f.recOff, len(out))
			for j := 0; j < 12; j++ {
				out = putF32(out, false, bigVal(r))
			}
			out = append(out, byte(r.Range(1, 255)), byte(r.Range(1, 255)))
		}
		f.recOff = append(f.recOff, len(out))
		f.data = out
	case "splat":
		out := make([]byte, 0, 32*n)
		for i := 0; i < n; i++ {
			f.recOff = append(f.recOff, len(out))
			for j := 0; j < 3; j++ {
				out = putF32(out, false, bigVal(r))
			}
			for j := 0; j < 3; j++ {
				out = putF32(out, false, float32(r.Range(1, 64))/16) // scales: positive (the reader takes logarithms)
			}
			for j := 0; j < 8; j++ {
				out = append(out, byte(r.Range(1, 254)))
			}
		}
		f.recOff = append(f.recOff, len(out))
		f.data = out
	case "pts":
		cols, _ := strconv.Atoi(g.Sub)
		if cols < 3 {
			cols = 3
		}
		var b bytes.Buffer
		fmt.Fprintf(&b, "%d\n", n)
		for i := 0; i < n; i++ {
			f.recOff = append(f.recOff, b.Len())
			for j := 0; j < cols; j++ {
				if j > 0 {
					b.WriteByte(' ')
				}
				v := r.Range(-500, 500)
				if j >= 3 {
					v = r.Range(1, 255)
				} else if v == 0 && j > 0 {
					v = 7
				}
				if j == 0 && i%1024 == 0 {
					v = []int{0, n - i, 1}[(i/1024)%3] // a count-like first token at the block boundaries
				}
				b.WriteString(strconv.Itoa(v))
			}
			b.WriteByte('\n')
		}
		f.recOff = append(f.recOff, b.Len())
		f.data, f.ascii = b.Bytes(), true
	case "spz":
		ver, deg, stored := 2, 0, false
		fmt.Sscanf(g.Sub, "v%d-sh%d", &ver, &deg)
		stored = len(g.Sub) > 6 && g.Sub[len(g.Sub)-6:] == "stored"
		shDim := []int{0, 3, 8, 15}[deg%4]
		var raw bytes.Buffer
		binary.Write(&raw, binary.LittleEndian, uint32(0x5053474e))
		binary.Write(&raw, binary.LittleEndian, uint32(ver))
		binary.Write(&raw, binary.LittleEndian, uint32(n))
		raw.Write([]byte{byte(deg), 12, 0, 0})
		posBytes := 9
		if ver == 1 {
			posBytes = 6
		}
		body := make([]byte, n*(posBytes+1+3+3+3+3*shDim))
		for i := range body {
			body[i] = byte(r.Range(1, 255))
		}
		if ver == 1 {
			for i := 0; i < n*3; i++ {
				body[2*i+1] &= 0x7b
				body[2*i+1] |= 0x01
			}
		}
		raw.Write(body)
		var buf bytes.Buffer
		level := gzip.BestSpeed
		if stored {
			level = gzip.NoCompression
		}
		zw, _ := gzip.NewWriterLevel(&buf, level)
		zw.Write(raw.Bytes())
		zw.Close()
		f.data = buf.Bytes()
	case "ply":
		enc, mesh := g.Sub[:len(g.Sub)-len("-cloud")], false
		if len(g.Sub) > 5 && g.Sub[len(g.Sub)-5:] == "-mesh" {
			enc, mesh = g.Sub[:len(g.Sub)-5], true
		}
		fmtName := map[string]string{"ascii": "ascii", "le": "binary_little_endian", "be": "binary_big_endian"}[enc]
		be, ascii := enc == "be", enc == "ascii"
		colour := g.Seed%2 == 0
		nf := 0
		if mesh {
			nf = n
		}
		var out []byte
		hdr := fmt.Sprintf("ply\nformat %s 1.0\ncomment c14 big file\nelement vertex %d\nproperty float x\nproperty float y\nproperty float z\n", fmtName, n)
		if colour {
			hdr += "property uchar red\nproperty uchar green\nproperty uchar blue\n"
		}
		if mesh {
			hdr += fmt.Sprintf("element face %d\nproperty list uchar int vertex_indices\n", nf)
		}
		hdr += "end_header\n"
		out = append(out, hdr...)
		for i := 0; i < n; i++ {
			f.recOff = append(f.recOff, len(out))
			if ascii {
				for j := 0; j < 3; j++ {
					if j > 0 {
						out = append(out, ' ')
					}
					v := bigVal(r)
					if j == 0 && i%1024 == 0 {
						v = float32([]int{0, 1, n - i}[(i/1024)%3])
					}
					out = strconv.AppendFloat(out, float64(v), 'g', -1, 32)
				}
				if colour {
					for j := 0; j < 3; j++ {
						out = append(out, ' ')
						out = strconv.AppendInt(out, int64(r.Range(1, 255)), 10)
					}
				}
				out = append(out, '\n')
				continue
			}
			for j := 0; j < 3; j++ {
				out = putF32(out, be, bigVal(r))
			}
			if colour {
				out = append(out, byte(r.Range(1, 255)), byte(r.Range(1, 255)), byte(r.Range(1, 255)))
			}
		}
		f.recOff = append(f.recOff, len(out))
		for i := 0; i < nf; i++ {
			f.recOff2 = append(f.recOff2, len(out))
			a, b, c := r.Intn(n), r.Intn(n), r.Intn(n)
			if ascii {
				out = append(out, fmt.Sprintf("3 %d %d %d\n", a, b, c)...)
				continue
			}
			out = append(out, 3)
			out = putU32(out, be, uint32(a))
			out = putU32(out, be, uint32(b))
			out = putU32(out, be, uint32(c))
		}
		if mesh {
			f.recOff2 = append(f.recOff2, len(out))
		}
		f.data, f.ascii = out, ascii
	}
	return f
}

// snap a byte position of an ASCII file to the nearest token boundary at or after it: the end of a token or the
// start of a line
func snapToken(data []byte, pos int) int {
	for pos < len(data) {
		if pos > 0 && data[pos-1] == '\n' {
			return pos
		}
		if pos > 0 && isWs(data[pos]) && !isWs(data[pos-1]) {
			return pos
		}
		pos++
	}
	return pos
}

// sampled cut positions of a big file
func bigCuts(g bigGen, f bigFile, bodyStart int, thorough bool) []int {
	data := f.data
	set := map[int]bool{}
	add := func(k int) {
		if f.ascii && k > bodyStart {
			k = snapToken(data, k)
			// ... and right after the separator that follows the token (the prefix ends with a blank)
			if k+1 < len(data) && data[k] == ' ' {
				set[k+1] = true
			}
		}
		if k >= 0 && k < len(data) {
			set[k] = true
		}
	}
	r := hx.NewRng(g.Seed + 7)
	// header / start of the file
	hs := bodyStart
	if hs == 0 {
		hs = 96
	}
	for i := 0; i < 6; i++ {
		add(r.Intn(hs + 1))
	}
	add(0)
	add(bodyStart)
	add(bodyStart - 1)
	// record-block boundaries: just before, at, inside the first scalar, inside the record, one record further
	around := func(off []int, blocks []int) {
		n := len(off) - 1
		if n <= 0 {
			return
		}
		for _, b := range blocks {
			for i := b; i <= n; i += b {
				rec := 1
				if i < n {
					rec = off[i+1] - off[i]
				}
				add(off[i] - 1)
				add(off[i])
				add(off[i] + rec/2)
				if b > 4096 || i == 4096 { // the small blocks are many: three positions each
					add(off[i] + 1)
					if i < n {
						add(off[i+1])
					}
				}
				if f.ascii && i < n { // right after the first field of the line that starts a block
					add(off[i] + 1)
					for e := off[i]; e < len(data) && !isWs(data[e]); e++ {
						if e+1 < len(data) && isWs(data[e+1]) {
							set[e+1] = true
						}
					}
				}
			}
		}
		// inside the last block and the last record
		add(off[n] - 1)
		add(off[n-1])
		add(off[n-1] + 1)
		add((off[n-1] + off[n]) / 2)
		for i := 0; i < 12; i++ {
			j := r.Intn(n)
			add(off[j] + r.Intn(off[j+1]-off[j]+1))
		}
	}
	blocks := []int{4096, 8192, 32768, 65536}
	around(f.recOff, blocks)
	around(f.recOff2, blocks)
	// byte-block boundaries (bufio pages, 64 KiB windows, deflate stored blocks)
	for _, b := range []int{65536, 65535, 32768} {
		for k := b; k < len(data); k += b {
			add(k - 1)
			add(k)
			add(k + 1)
		}
	}
	for i := 0; i < 10; i++ {
		k := 4096 * (1 + r.Intn(len(data)/4096+1))
		add(k - 1)
		add(k)
	}
	for i := 0; i < 16; i++ {
		add(r.Intn(len(data)))
	}
	// trailing bytes (gzip trailer, last record)
	for k := len(data) - 24; k < len(data); k++ {
		add(k)
	}
	out := make([]int, 0, len(set))
	for k := range set {
		out = append(out, k)
	}
	sort.Ints(out)
	limit := 150
	if thorough {
		limit = 500
	}
	if f.ascii {
		limit /= 2 // text decodes cost ten times a binary one
		if len(data) > 1<<19 {
			limit /= 2
		}
	}
	if len(out) > limit {
		// keep the first 8 and the last 24, thin the middle evenly
		mid := out[8 : len(out)-24]
		keep := limit - 32
		samp := append([]int{}, out[:8]...)
		for i := 0; i < keep; i++ {
			samp = append(samp, mid[i*len(mid)/keep])
		}
		samp = append(samp, out[len(out)-24:]...)
		out = samp
	}
	return out
}

// the big files of a run: every format, counts past 4096/8192 in the quick tier plus one binary PLY cloud and one
// mesh past 65536; the thorough tier walks the whole size list
func bigPlan(seed uint64, thorough bool) []bigGen {
	enc := []string{"le", "be"}
	e0, e1 := enc[seed%2], enc[(seed+1)%2]
	// every big SPZ file carries spherical harmonics in the quick tier (the largest block of the file)
	spzSub := []string{"v2-sh1-stored", "v1-sh3-deflate", "v2-sh2-stored", "v1-sh1-deflate"}
	plan := []bigGen{
		{Format: "ply", Sub: e0 + "-cloud", N: 70001, Seed: seed},
		{Format: "ply", Sub: e1 + "-mesh", N: 9001, Seed: seed + 1},
		{Format: "ply", Sub: "ascii-" + []string{"cloud", "mesh"}[seed%2], N: 4097, Seed: seed},
		{Format: "stl", N: 9001, Seed: seed},
		{Format: "splat", N: 9001, Seed: seed},
		{Format: "pts", Sub: []string{"3", "4", "7"}[seed%3], N: 9001, Seed: seed},
		{Format: "pts", Sub: []string{"7", "3", "4"}[seed%3], N: 70001, Seed: seed + 1},
		{Format: "spz", Sub: spzSub[seed%4], N: 9001, Seed: seed},
	}
	if thorough {
		plan = nil
		for i, n := range bigSizes {
			s := seed + uint64(i)
			plan = append(plan,
				bigGen{Format: "ply", Sub: enc[i%2] + "-cloud", N: n, Seed: s},
				bigGen{Format: "ply", Sub: enc[(i+1)%2] + "-mesh", N: n, Seed: s + 1},
				bigGen{Format: "stl", N: n, Seed: s},
				bigGen{Format: "splat", N: n, Seed: s},
				bigGen{Format: "spz", Sub: spzSub[i%4], N: n, Seed: s})
			if n <= 9001 || n == 70001 {
				plan = append(plan,
					bigGen{Format: "ply", Sub: "ascii-" + []string{"cloud", "mesh"}[i%2], N: n, Seed: s},
					bigGen{Format: "pts", Sub: []string{"3", "4", "7"}[i%3], N: n, Seed: s})
			}
		}
	}
	return plan
}
