// C14 harness: truncated model files.  For generated valid files of every format it decodes EVERY
// strict prefix (every byte for binary, every token boundary for ASCII) with the real decoders,
// under a deadline, and records class + result.  Observations become Coq cases for Check/C14.v.
package main

import (
	"bytes"
	"compress/gzip"
	"crypto/sha1"
	"encoding/binary"
	"encoding/hex"
	"encoding/json"
	"fmt"
	"math"
	"runtime"
	"sort"
	"strings"
	"time"

	"verif/harness/hx"

	"github.com/EliCDavis/polyform/formats/ply"
	"github.com/EliCDavis/polyform/formats/pts"
	"github.com/EliCDavis/polyform/formats/splat"
	"github.com/EliCDavis/polyform/formats/spz"
	"github.com/EliCDavis/polyform/formats/stl"
	"github.com/EliCDavis/polyform/modeling"
	"github.com/EliCDavis/vector/vector2"
	"github.com/EliCDavis/vector/vector3"
	"github.com/EliCDavis/vector/vector4"
)

// ---------- canonical digest of a mesh (bit-exact) ----------
func meshDigest(m modeling.Mesh) string {
	var b strings.Builder
	fmt.Fprintf(&b, "T%d|I", int(m.Topology()))
	idx := m.Indices()
	for i := 0; i < idx.Len(); i++ {
		fmt.Fprintf(&b, "%d,", idx.At(i))
	}
	names := m.Float1Attributes()
	sort.Strings(names)
	for _, n := range names {
		fmt.Fprintf(&b, "|1:%s:", n)
		a := m.Float1Attribute(n)
		for i := 0; i < a.Len(); i++ {
			fmt.Fprintf(&b, "%x,", math.Float64bits(a.At(i)))
		}
	}
	names = m.Float2Attributes()
	sort.Strings(names)
	for _, n := range names {
		fmt.Fprintf(&b, "|2:%s:", n)
		a := m.Float2Attribute(n)
		for i := 0; i < a.Len(); i++ {
			v := a.At(i)
			fmt.Fprintf(&b, "%x/%x,", math.Float64bits(v.X()), math.Float64bits(v.Y()))
		}
	}
	names = m.Float3Attributes()
	sort.Strings(names)
	for _, n := range names {
		fmt.Fprintf(&b, "|3:%s:", n)
		a := m.Float3Attribute(n)
		for i := 0; i < a.Len(); i++ {
			v := a.At(i)
			fmt.Fprintf(&b, "%x/%x/%x,", math.Float64bits(v.X()), math.Float64bits(v.Y()), math.Float64bits(v.Z()))
		}
	}
	names = m.Float4Attributes()
	sort.Strings(names)
	for _, n := range names {
		fmt.Fprintf(&b, "|4:%s:", n)
		a := m.Float4Attribute(n)
		for i := 0; i < a.Len(); i++ {
			v := a.At(i)
			fmt.Fprintf(&b, "%x/%x/%x/%x,", math.Float64bits(v.X()), math.Float64bits(v.Y()), math.Float64bits(v.Z()), math.Float64bits(v.W()))
		}
	}
	h := sha1.Sum([]byte(b.String()))
	return hex.EncodeToString(h[:8])
}

// ---------- decoding under a deadline ----------
const (
	clsOk    = 0
	clsErr   = 1 // error return or panic(err) with a non-runtime error: a reported failure
	clsCrash = 2 // runtime.Error panic
	clsHang  = 3 // deadline exceeded
)

type outcome struct {
	cls    int
	mesh   *modeling.Mesh
	hasErr bool // .splat returns data AND an error
	msg    string
}

var hangs = 0

func decode(format string, data []byte) outcome {
	ch := make(chan outcome, 1)
	go func() {
		var o outcome
		defer func() {
			if rec := recover(); rec != nil {
				if _, isRt := rec.(runtime.Error); isRt {
					o = outcome{cls: clsCrash, msg: fmt.Sprint(rec)}
				} else {
					o = outcome{cls: clsErr, msg: fmt.Sprint(rec)}
				}
			}
			ch <- o
		}()
		switch format {
		case "stl":
			m, err := stl.ReadMesh(bytes.NewReader(data))
			if err != nil {
				o = outcome{cls: clsErr, msg: err.Error()}
			} else {
				o = outcome{cls: clsOk, mesh: m}
			}
		case "ply":
			m, err := ply.ReadMesh(bytes.NewReader(data))
			if err != nil {
				o = outcome{cls: clsErr, msg: err.Error()}
			} else {
				o = outcome{cls: clsOk, mesh: m}
			}
		case "pts":
			m, err := pts.ReadPointCloud(bytes.NewReader(data))
			if err != nil {
				o = outcome{cls: clsErr, msg: err.Error()}
			} else {
				o = outcome{cls: clsOk, mesh: m}
			}
		case "splat":
			m, err := splat.Read(bytes.NewReader(data))
			o = outcome{cls: clsOk, mesh: &m, hasErr: err != nil}
			if err != nil {
				o.msg = err.Error()
			}
		case "spz":
			c, err := spz.Read(bytes.NewReader(data))
			if err != nil {
				o = outcome{cls: clsErr, msg: err.Error()}
			} else {
				o = outcome{cls: clsOk, mesh: &c.Mesh}
			}
		}
	}()
	// deadline: 2 s + 1 µs per byte (the property: time proportional to the input)
	select {
	case o := <-ch:
		return o
	case <-time.After(2*time.Second + time.Duration(len(data))*time.Microsecond):
		hangs++
		return outcome{cls: clsHang, msg: "deadline exceeded"}
	}
}

// ---------- file generators ----------
type fileDesc struct {
	Format string `json:"format"`         // stl | ply | pts | splat | spz
	Sub    string `json:"sub"`            // ply: ascii|le|be ; spz: v1|v2
	Hex    string `json:"hex"`            // the complete valid file
	Cuts   []int  `json:"cuts,omitempty"` // nil: all admissible cut positions
	// pts only: the abstract token view
	PtsCount int     `json:"pts_count,omitempty"`
	PtsLines [][]int `json:"pts_lines,omitempty"`
}

func randMesh(r *hx.Rng, tris bool, uv bool) modeling.Mesh {
	nv := r.Range(1, 6)
	pos := make([]vector3.Float64, nv)
	nrm := make([]vector3.Float64, nv)
	col := make([]vector3.Float64, nv)
	uvs := make([]vector2.Float64, nv)
	for i := range pos {
		pos[i] = vector3.New(float64(r.Range(-9, 9)), float64(r.Range(-9, 9))/2, float64(r.Range(-9, 9))/4)
		nrm[i] = vector3.New(0., 0., 1.)
		col[i] = vector3.New(float64(r.Intn(256))/255, float64(r.Intn(256))/255, float64(r.Intn(256))/255)
		uvs[i] = vector2.New(float64(r.Intn(5))/4, float64(r.Intn(5))/4)
	}
	var m modeling.Mesh
	if tris {
		nt := r.Range(0, 4)
		idx := make([]int, 3*nt)
		for i := range idx {
			idx[i] = r.Intn(nv)
		}
		m = modeling.NewTriangleMesh(idx)
	} else {
		idx := make([]int, nv)
		for i := range idx {
			idx[i] = i
		}
		m = modeling.NewMesh(modeling.PointTopology, idx)
	}
	m = m.SetFloat3Attribute(modeling.PositionAttribute, pos)
	if r.Bool() {
		m = m.SetFloat3Attribute(modeling.NormalAttribute, nrm)
	}
	if r.Bool() {
		m = m.SetFloat3Attribute(modeling.ColorAttribute, col)
	}
	if uv {
		m = m.SetFloat2Attribute(modeling.TexCoordAttribute, uvs)
	}
	if r.Chance(1, 3) {
		s := make([]float64, nv)
		for i := range s {
			s[i] = float64(r.Range(-4, 4))
		}
		m = m.SetFloat1Attribute("quality", s)
	}
	return m
}

func genFile(r *hx.Rng, which int) (fileDesc, bool) {
	var buf bytes.Buffer
	switch which {
	case 0: // stl
		m := randMesh(r, true, false)
		if err := stl.WriteMesh(&buf, m); err != nil {
			return fileDesc{}, false
		}
		return fileDesc{Format: "stl", Hex: hex.EncodeToString(buf.Bytes())}, true
	case 1, 2, 3: // ply
		sub := []string{"ascii", "le", "be"}[which-1]
		f := []ply.Format{ply.ASCII, ply.BinaryLittleEndian, ply.BinaryBigEndian}[which-1]
		tris := r.Bool()
		m := randMesh(r, tris, tris && r.Bool())
		var err error
		func() {
			defer func() {
				if rec := recover(); rec != nil {
					err = fmt.Errorf("%v", rec)
				}
			}()
			err = ply.Write(&buf, m, f)
		}()
		if err != nil {
			return fileDesc{}, false
		}
		return fileDesc{Format: "ply", Sub: sub, Hex: hex.EncodeToString(buf.Bytes())}, true
	case 4: // pts
		n := r.Range(0, 4)
		cols := hx.Pick(r, []int{3, 3, 4, 7, 7})
		lines := make([][]int, n)
		var sb strings.Builder
		fmt.Fprintf(&sb, "%d\n", n)
		for i := range lines {
			lines[i] = make([]int, cols)
			for j := range lines[i] {
				if j < 3 {
					lines[i][j] = r.Range(-50, 50)
				} else {
					lines[i][j] = r.Range(1, 255) // non-zero so a zero placeholder is distinguishable
				}
				if j > 0 {
					sb.WriteByte(' ')
				}
				fmt.Fprintf(&sb, "%d", lines[i][j])
			}
			sb.WriteByte('\n')
		}
		return fileDesc{Format: "pts", Hex: hex.EncodeToString([]byte(sb.String())), PtsCount: n, PtsLines: lines}, true
	case 5: // splat
		n := r.Range(0, 5)
		pos := make([]vector3.Float64, n)
		sc := make([]vector3.Float64, n)
		fdc := make([]vector3.Float64, n)
		op := make([]float64, n)
		rot := make([]vector4.Float64, n)
		for i := 0; i < n; i++ {
			pos[i] = vector3.New(float64(r.Range(-9, 9)), float64(r.Range(-9, 9)), float64(r.Range(-9, 9)))
			sc[i] = vector3.New(-1., 0., 0.5)
			fdc[i] = vector3.New(r.Float()-0.5, r.Float()-0.5, r.Float()-0.5)
			op[i] = r.Float()*4 - 2
			rot[i] = vector4.New(0.5, -0.5, 0.5, 0.5)
		}
		m := modeling.NewPointCloud(
			map[string][]vector4.Float64{modeling.RotationAttribute: rot},
			map[string][]vector3.Float64{modeling.PositionAttribute: pos, modeling.ScaleAttribute: sc, modeling.FDCAttribute: fdc},
			nil, map[string][]float64{modeling.OpacityAttribute: op}, nil)
		if n == 0 {
			return fileDesc{Format: "splat", Hex: ""}, true
		}
		if err := splat.Write(&buf, m); err != nil {
			return fileDesc{}, false
		}
		return fileDesc{Format: "splat", Hex: hex.EncodeToString(buf.Bytes())}, true
	default: // spz, independent encoder from the published layout
		ver := r.Range(1, 2)
		deg := r.Range(0, 3)
		shDim := []int{0, 3, 8, 15}[deg]
		n := r.Range(0, 4)
		var raw bytes.Buffer
		binary.Write(&raw, binary.LittleEndian, uint32(0x5053474e))
		binary.Write(&raw, binary.LittleEndian, uint32(ver))
		binary.Write(&raw, binary.LittleEndian, uint32(n))
		raw.Write([]byte{byte(deg), byte(r.Range(0, 23)), 0, 0})
		posBytes := 9
		if ver == 1 {
			posBytes = 6
		}
		body := make([]byte, n*(posBytes+1+3+3+3+3*shDim))
		for i := range body {
			body[i] = byte(r.Intn(256))
		}
		if ver == 1 { // keep half floats finite: clear exponent-all-ones patterns
			for i := 0; i < n*3; i++ {
				body[2*i+1] &= 0x7b
			}
		}
		raw.Write(body)
		zw := gzip.NewWriter(&buf)
		zw.Write(raw.Bytes())
		zw.Close()
		return fileDesc{Format: "spz", Sub: fmt.Sprintf("v%d", ver), Hex: hex.EncodeToString(buf.Bytes())}, true
	}
}

// token boundaries of an ASCII text: positions right after a token ends (before the following
// whitespace) and right after each newline; position 0 included; len excluded (strict prefix).
func tokenBoundaries(b []byte, from int) []int {
	set := map[int]bool{}
	for i := from; i < len(b); i++ {
		isWs := b[i] == ' ' || b[i] == '\n' || b[i] == '\r' || b[i] == '\t'
		if isWs && i > 0 && !(b[i-1] == ' ' || b[i-1] == '\n' || b[i-1] == '\r' || b[i-1] == '\t') {
			set[i] = true
		}
		if i > 0 && b[i-1] == '\n' {
			set[i] = true
		}
	}
	out := make([]int, 0, len(set))
	for k := range set {
		if k < len(b) {
			out = append(out, k)
		}
	}
	sort.Ints(out)
	return out
}

func cutsFor(d fileDesc, data []byte, r *hx.Rng, thorough bool) []int {
	if d.Cuts != nil {
		return d.Cuts
	}
	var cuts []int
	switch {
	case d.Format == "pts":
		cuts = append([]int{0}, tokenBoundaries(data, 0)...)
	case d.Format == "ply" && d.Sub == "ascii":
		// header: every byte; body: every token boundary
		he := bytes.Index(data, []byte("end_header\n"))
		bodyStart := len(data)
		if he >= 0 {
			bodyStart = he + len("end_header\n")
		}
		for k := 0; k < bodyStart && k < len(data); k++ {
			cuts = append(cuts, k)
		}
		cuts = append(cuts, tokenBoundaries(data, bodyStart)...)
	default:
		for k := 0; k < len(data); k++ {
			cuts = append(cuts, k)
		}
	}
	// dedupe + optional stride sampling on big files
	sort.Ints(cuts)
	out := cuts[:0]
	last := -1
	for _, k := range cuts {
		if k != last && k < len(data) {
			out = append(out, k)
		}
		last = k
	}
	limit := 700
	if thorough {
		limit = 6000
	}
	if len(out) > limit {
		samp := make([]int, 0, limit)
		stride := float64(len(out)) / float64(limit)
		for i := 0; i < limit; i++ {
			samp = append(samp, out[int(float64(i)*stride)])
		}
		// always keep the last 40 positions (trailing framing) and the first 40
		samp = append(samp, out[len(out)-40:]...)
		sort.Ints(samp)
		out = samp
	}
	return out
}

// ---------- building a case ----------
func ptsResultCoq(m *modeling.Mesh) string {
	// positions / intensity*255 / colour*255 as exact integers (inputs are small integers)
	n := m.AttributeLength()
	pos := "[]"
	if m.HasFloat3Attribute(modeling.PositionAttribute) {
		p := m.Float3Attribute(modeling.PositionAttribute)
		items := make([]string, p.Len())
		for i := range items {
			v := p.At(i)
			items[i] = fmt.Sprintf("(%s,%s,%s)", z(v.X()), z(v.Y()), z(v.Z()))
		}
		pos = "[" + strings.Join(items, ";") + "]"
	}
	in := "None"
	if m.HasFloat1Attribute(modeling.IntensityAttribute) {
		a := m.Float1Attribute(modeling.IntensityAttribute)
		items := make([]string, a.Len())
		for i := range items {
			items[i] = z(math.Round(a.At(i) * 255))
		}
		in = "(Some [" + strings.Join(items, ";") + "])"
	}
	col := "None"
	if m.HasFloat3Attribute(modeling.ColorAttribute) {
		p := m.Float3Attribute(modeling.ColorAttribute)
		items := make([]string, p.Len())
		for i := range items {
			v := p.At(i)
			items[i] = fmt.Sprintf("(%s,%s,%s)", z(math.Round(v.X()*255)), z(math.Round(v.Y()*255)), z(math.Round(v.Z()*255)))
		}
		col = "(Some [" + strings.Join(items, ";") + "])"
	}
	return fmt.Sprintf("{| p_n := %d; p_pos := %s; p_int := %s; p_col := %s |}", n, pos, in, col)
}
func z(f float64) string {
	v := int64(f)
	if v < 0 {
		return fmt.Sprintf("(%d)%%Z", v)
	}
	return fmt.Sprintf("%d%%Z", v)
}

// prefix of the pts token view at byte cut k: number of complete body lines j and tokens m of the partial line
func ptsTokensAt(data []byte, k int) (hasCount bool, lines [][]string) {
	txt := string(data[:k])
	parts := strings.Split(txt, "\n")
	if len(strings.Fields(parts[0])) > 0 {
		hasCount = true
	}
	for _, l := range parts[1:] {
		f := strings.Fields(l)
		lines = append(lines, f)
	}
	// a trailing empty element after the final newline is not a line
	if len(lines) > 0 && len(lines[len(lines)-1]) == 0 {
		lines = lines[:len(lines)-1]
	}
	return
}

func fileCase(d fileDesc, r *hx.Rng, thorough bool) hx.Case {
	data, _ := hex.DecodeString(d.Hex)
	c := hx.Case{Kind: "file", Desc: d}
	full := decode(d.Format, data)
	fullDigest := ""
	fullN := 0
	if full.cls == clsOk && full.mesh != nil {
		fullDigest = meshDigest(*full.mesh)
		fullN = full.mesh.AttributeLength()
	} else {
		c.GoFail = fmt.Sprintf("the complete %s file does not decode (%s): generator problem or decoder defect", d.Format, full.msg)
		c.FailKey = "c14:full-file-rejected"
	}
	cuts := cutsFor(d, data, r, thorough)
	obs := make([]string, 0, len(cuts))
	nOk := 0
	for _, k := range cuts {
		if hangs >= 3 {
			break // leaked spinning goroutines: stop exploring, the hang is already recorded
		}
		o := decode(d.Format, data[:k])
		switch d.Format {
		case "splat":
			// record-streamed: data AND error
			n, eq := 0, false
			if o.cls == clsOk && o.mesh != nil {
				n = o.mesh.AttributeLength()
				// equal to the first n splats of the full decode?
				eq = n <= fullN && splatPrefixEqual(*o.mesh, *full.mesh, n)
			}
			obs = append(obs, fmt.Sprintf("(%d,%d,(%d,%s,%s))", k, o.cls, n, hx.CoqBool(o.hasErr), hx.CoqBool(eq)))
		case "pts":
			res := "None"
			if o.cls == clsOk && o.mesh != nil {
				res = "(Some " + ptsResultCoq(o.mesh) + ")"
				nOk++
			}
			hasCount, lines := ptsTokensAt(data, k)
			j, m := len(lines), 0
			// the last line is partial unless the cut is right after its newline
			if len(lines) > 0 && k > 0 && data[k-1] != '\n' {
				j, m = len(lines)-1, len(lines[len(lines)-1])
			}
			obs = append(obs, fmt.Sprintf("((%s,%d%%nat,%d%%nat),%d,%s)", hx.CoqBool(hasCount), j, m, o.cls, res))
		default:
			eq := false
			if o.cls == clsOk && o.mesh != nil {
				eq = meshDigest(*o.mesh) == fullDigest
				nOk++
			}
			obs = append(obs, fmt.Sprintf("(%d,%d,%s)", k, o.cls, hx.CoqBool(eq)))
		}
		if o.cls == clsCrash || o.cls == clsHang {
			c.Nontriv = true
		}
	}
	switch d.Format {
	case "stl":
		c.Coq = fmt.Sprintf("CStl %s [%s]", hx.CoqListN(data), strings.Join(obs, ";"))
	case "splat":
		c.Coq = fmt.Sprintf("CSplat %d [%s]", len(data), strings.Join(obs, ";"))
	case "pts":
		ls := make([]string, len(d.PtsLines))
		for i, l := range d.PtsLines {
			zs := make([]int64, len(l))
			for j, v := range l {
				zs[j] = int64(v)
			}
			ls[i] = hx.CoqListZ(zs)
		}
		c.Coq = fmt.Sprintf("CPts %d%%Z [%s] [%s]", d.PtsCount, strings.Join(ls, ";"), strings.Join(obs, ";"))
	default:
		c.Coq = fmt.Sprintf("CGeneric %s %d [%s]", hx.CoqString(d.Format+"/"+d.Sub), len(data), strings.Join(obs, ";"))
	}
	c.Nontriv = len(cuts) > 20
	c.Key = d.Format + d.Sub + d.Hex
	return c
}

func splatPrefixEqual(a, full modeling.Mesh, n int) bool {
	for _, name := range []string{modeling.PositionAttribute, modeling.ScaleAttribute, modeling.FDCAttribute} {
		if n == 0 {
			continue
		}
		if !a.HasFloat3Attribute(name) || !full.HasFloat3Attribute(name) {
			return false
		}
		x, y := a.Float3Attribute(name), full.Float3Attribute(name)
		for i := 0; i < n; i++ {
			p, q := x.At(i), y.At(i)
			if !(same(p.X(), q.X()) && same(p.Y(), q.Y()) && same(p.Z(), q.Z())) {
				return false
			}
		}
	}
	if n > 0 {
		x, y := a.Float4Attribute(modeling.RotationAttribute), full.Float4Attribute(modeling.RotationAttribute)
		o1, o2 := a.Float1Attribute(modeling.OpacityAttribute), full.Float1Attribute(modeling.OpacityAttribute)
		for i := 0; i < n; i++ {
			p, q := x.At(i), y.At(i)
			if !(same(p.X(), q.X()) && same(p.Y(), q.Y()) && same(p.Z(), q.Z()) && same(p.W(), q.W())) {
				return false
			}
			if !same(o1.At(i), o2.At(i)) {
				return false
			}
		}
	}
	return true
}
func same(a, b float64) bool {
	return math.Float64bits(a) == math.Float64bits(b) || (math.IsNaN(a) && math.IsNaN(b))
}

func main() {
	run := hx.ParseFlags("C14", "Check.C14")
	thorough := run.Tier == "thorough"
	r := hx.NewRng(run.Seed)
	for _, in := range run.Inputs() {
		var d fileDesc
		json.Unmarshal(in.Raw, &d)
		run.Add(fileCase(d, r, thorough))
	}
	if run.Replay != "" {
		run.Finish()
		return
	}
	total := 0
	for i := 0; i < run.N && hangs < 3; i++ {
		d, ok := genFile(r, i%7)
		if !ok {
			run.Count("generator:writer-failed")
			continue
		}
		c := fileCase(d, r, thorough)
		run.Count("format:" + d.Format + "/" + d.Sub)
		total += strings.Count(c.Coq, ";")
		run.Add(c)
	}
	run.Extra["prefix_decodes"] = total
	run.Extra["hangs"] = hangs
	run.Finish()
}
