// C14 harness: truncated model files.  For generated valid files of every format it decodes EVERY strict prefix
// (every byte for binary files and for headers, every token boundary for ASCII bodies) with the real decoders, each
// decode in a child process under a deadline (2 s + 1 us/byte) and an address-space cap, and records class + result.
// Observations become Coq cases for Check/C14.v: prop_ok judges the implementation alone, corr_ok compares the
// class with the Coq models' decode of the same prefix.
package main

import (
	"bytes"
	"compress/gzip"
	"encoding/binary"
	"encoding/hex"
	"encoding/json"
	"fmt"
	"io"
	"math"
	"os"
	"path/filepath"
	"sort"
	"strconv"
	"strings"
	"time"

	"verif/harness/hx"
	"verif/harness/internal/plyx"

	"github.com/EliCDavis/polyform/formats/ply"
	"github.com/EliCDavis/polyform/formats/splat"
	"github.com/EliCDavis/polyform/formats/stl"
	"github.com/EliCDavis/polyform/modeling"
	"github.com/EliCDavis/vector/vector2"
	"github.com/EliCDavis/vector/vector3"
	"github.com/EliCDavis/vector/vector4"
)

const parallel = 8
const hangLimit = 3 // stop exploring after this many missed deadlines: the hang is already recorded

// ---------- file descriptions (replayable) ----------
type fileDesc struct {
	Format string `json:"format"`         // stl | ply | pts | splat | spz
	Sub    string `json:"sub"`            // ply: ascii|le|be (+ "-ref" for the independent encoder); spz: v1|v2 + degree
	Hex    string `json:"hex"`            // the complete valid file
	Cuts   []int  `json:"cuts,omitempty"` // nil: all admissible cut positions
	// ASCII PLY (independent encoder): every body line carries this many surplus trailing tokens the reader ignores
	Surplus int `json:"surplus,omitempty"`
	// pts only: the abstract token view
	PtsCount int     `json:"pts_count,omitempty"`
	PtsLines [][]int `json:"pts_lines,omitempty"`
	// an auxiliary reader of the anchored files run on the same file: "plyc" (ply.MeshReader with a caller-made
	// configuration, Read and Load) or "spzh" (spz.ReadHeader); judged as a framed decoder, no model
	Aux string `json:"aux,omitempty"`
	// big files (sizes past the readers' internal chunk / buffer thresholds) are described by their recipe, not by
	// their bytes; cuts are sampled around block boundaries
	Gen *bigGen `json:"gen,omitempty"`
	// filled in when a case fails: the first offending cut
	BadCut *int   `json:"bad_cut,omitempty"`
	BadWhy string `json:"bad_why,omitempty"`
}

type hostileDesc struct {
	Format   string `json:"format"`
	What     string `json:"what"`
	Hex      string `json:"hex"`
	Declared uint64 `json:"declared"`
}

// ---------- generators ----------
var bigMax = 14 // quick tier; 40 in the thorough tier

func randMesh(r *hx.Rng, tris bool, uv bool, big bool) modeling.Mesh {
	nv := r.Range(1, 6)
	if big {
		nv = r.Range(4, bigMax)
	}
	pos := make([]vector3.Float64, nv)
	nrm := make([]vector3.Float64, nv)
	col := make([]vector3.Float64, nv)
	uvs := make([]vector2.Float64, nv)
	for i := range pos {
		// every stored byte pattern non-trivial: odd multiples of small dyadics, never 0
		pos[i] = vector3.New(float64(2*r.Range(-9, 9)+1), float64(2*r.Range(-9, 9)+1)/2, float64(2*r.Range(-9, 9)+1)/4)
		nrm[i] = vector3.New(float64(2*r.Range(0, 3)+1)/8, float64(2*r.Range(0, 3)+1)/8, float64(2*r.Range(0, 3)+1)/8)
		col[i] = vector3.New(float64(r.Range(1, 255))/255, float64(r.Range(1, 255))/255, float64(r.Range(1, 255))/255)
		uvs[i] = vector2.New(float64(2*r.Intn(4)+1)/8, float64(2*r.Intn(4)+1)/8)
	}
	var m modeling.Mesh
	if tris {
		nt := r.Range(0, 4)
		if big {
			nt = r.Range(2, bigMax)
		}
		idx := make([]int, 3*nt)
		for i := range idx {
			idx[i] = r.Intn(nv)
		}
		m = modeling.NewTriangleMesh(idx)
	} else {
		idx := make([]int, nv)
		for i := range idx {
			idx[i] = i
		}
		m = modeling.NewMesh(modeling.PointTopology, idx)
	}
	m = m.SetFloat3Attribute(modeling.PositionAttribute, pos)
	if r.Bool() {
		m = m.SetFloat3Attribute(modeling.NormalAttribute, nrm)
	}
	if r.Bool() {
		m = m.SetFloat3Attribute(modeling.ColorAttribute, col)
	}
	if uv {
		m = m.SetFloat2Attribute(modeling.TexCoordAttribute, uvs)
	}
	if r.Chance(1, 3) {
		s := make([]float64, nv)
		for i := range s {
			s[i] = float64(2*r.Range(-4, 4) + 1)
		}
		m = m.SetFloat1Attribute("quality", s)
	}
	return m
}

// independent PLY encoder (written from the PLY specification): uchar colours with/without alpha, double and int
// columns, triangle and quad faces, uchar/uint count types, float/double texcoord lists, all three encodings
func genRefPly(r *hx.Rng, big bool) (fileDesc, bool) {
	sub := []string{"ascii", "le", "be"}[refSeq%3] // every encoding in turn; every other ASCII file carries surplus tokens
	wantSurplus := (refSeq/3)%2 == 0
	refSeq++
	fmtName := map[string]string{"ascii": "ascii", "le": "binary_little_endian", "be": "binary_big_endian"}[sub]
	type vp struct{ ty, name string }
	posTy := hx.Pick(r, []string{"float", "float", "double"})
	props := []vp{{posTy, "x"}, {posTy, "y"}, {posTy, "z"}}
	if r.Bool() {
		props = append(props, vp{"float", "nx"}, vp{"float", "ny"}, vp{"float", "nz"})
	}
	switch r.Intn(3) {
	case 0:
		props = append(props, vp{"uchar", "red"}, vp{"uchar", "green"}, vp{"uchar", "blue"})
	case 1:
		props = append(props, vp{"uchar", "red"}, vp{"uchar", "green"}, vp{"uchar", "blue"}, vp{"uchar", "alpha"})
	}
	if r.Chance(1, 3) {
		props = append(props, vp{"int", "label"})
	}
	if r.Chance(1, 4) { // per-vertex texture coordinates: the Vector2 reader of the default configuration
		props = append(props, vp{"float", "s"}, vp{"float", "t"})
	}
	nv := r.Range(1, 5)
	if big {
		nv = r.Range(4, 30)
	}
	hasFace := r.Chance(2, 3)
	hasTex := hasFace && r.Bool()
	ct := hx.Pick(r, []string{"uchar", "uchar", "uint"})
	it := hx.Pick(r, []string{"int", "uint"})
	tt := hx.Pick(r, []string{"float", "double"})
	nf := 0
	if hasFace {
		nf = r.Range(0, 4)
		if big {
			nf = r.Range(2, 20)
		}
	}
	var hdr strings.Builder
	fmt.Fprintf(&hdr, "ply\nformat %s 1.0\ncomment c14 reference encoder\nelement vertex %d\n", fmtName, nv)
	for _, p := range props {
		fmt.Fprintf(&hdr, "property %s %s\n", p.ty, p.name)
	}
	if hasFace {
		fmt.Fprintf(&hdr, "element face %d\nproperty list %s %s vertex_indices\n", nf, ct, it)
		if hasTex {
			fmt.Fprintf(&hdr, "property list %s %s texcoord\n", ct, tt)
		}
	}
	hdr.WriteString("end_header\n")
	out := []byte(hdr.String())
	be := sub == "be"
	ascii := sub == "ascii"
	var line []string
	put := func(ty string, iv int64, fv float64) {
		if ascii {
			switch ty {
			case "float", "double":
				line = append(line, fmt.Sprintf("%g", fv))
			default:
				line = append(line, fmt.Sprintf("%d", iv))
			}
			return
		}
		var w uint64
		n := 4
		switch ty {
		case "uchar":
			w, n = uint64(uint8(iv)), 1
		case "int", "uint":
			w = uint64(uint32(int32(iv)))
		case "float":
			w = uint64(math.Float32bits(float32(fv)))
		case "double":
			w, n = math.Float64bits(fv), 8
		}
		buf := make([]byte, 8)
		if be {
			binary.BigEndian.PutUint64(buf, w)
			out = append(out, buf[8-n:]...)
		} else {
			binary.LittleEndian.PutUint64(buf, w)
			out = append(out, buf[:n]...)
		}
	}
	surplus := 0
	if ascii && wantSurplus {
		surplus = r.Range(1, 2)
	}
	flush := func() {
		if ascii {
			for i := 0; i < surplus; i++ {
				line = append(line, fmt.Sprintf("%d", 70+i)) // ignored by the reader: not part of the promised data
			}
			out = append(out, strings.Join(line, " ")+"\n"...)
			line = line[:0]
		}
	}
	for i := 0; i < nv; i++ {
		for _, p := range props {
			switch p.ty {
			case "uchar":
				put(p.ty, int64(r.Range(1, 255)), 0)
			case "int":
				put(p.ty, int64(r.Range(-300, 300)*2+1), 0)
			default:
				if r.Chance(1, 5) { // a bare integer token (0, 1, -2 ...): nothing marks it as a coordinate
					put(p.ty, 0, float64(r.Range(-2, 3)))
				} else {
					put(p.ty, 0, float64(2*r.Range(-20, 20)+1)/8)
				}
			}
		}
		flush()
	}
	for f := 0; f < nf; f++ {
		k := 3 + r.Intn(2)
		put(ct, int64(k), 0)
		for j := 0; j < k; j++ {
			put(it, int64(r.Intn(nv)), 0)
		}
		if hasTex {
			put(ct, int64(2*k), 0)
			for j := 0; j < 2*k; j++ {
				put(tt, 0, float64(2*r.Intn(8)+1)/16)
			}
		}
		flush()
	}
	return fileDesc{Format: "ply", Sub: sub + "-ref", Hex: hex.EncodeToString(out), Surplus: surplus}, true
}

const nKinds = 8

var spzSeq = 0
var refSeq = 0
var ptsSeq = 0
var plySeq = 0

func genFile(r *hx.Rng, which int, big bool) (fileDesc, bool) {
	var buf bytes.Buffer
	switch which {
	case 0: // stl
		m := randMesh(r, true, false, big)
		if err := stl.WriteMesh(&buf, m); err != nil {
			return fileDesc{}, false
		}
		return fileDesc{Format: "stl", Hex: hex.EncodeToString(buf.Bytes())}, true
	case 1, 2, 3: // ply through polyform's own writer
		sub := []string{"ascii", "le", "be"}[which-1]
		f := []ply.Format{ply.ASCII, ply.BinaryLittleEndian, ply.BinaryBigEndian}[which-1]
		tris := r.Chance(2, 3)
		m := randMesh(r, tris, tris && r.Bool(), big)
		var err error
		func() {
			defer func() {
				if rec := recover(); rec != nil {
					err = fmt.Errorf("%v", rec)
				}
			}()
			err = ply.Write(&buf, m, f)
		}()
		if err != nil {
			return fileDesc{}, false
		}
		return fileDesc{Format: "ply", Sub: sub, Hex: hex.EncodeToString(buf.Bytes())}, true
	case 4: // pts
		n := r.Range(0, 4)
		if big {
			n = r.Range(3, 40)
		}
		cols := hx.Pick(r, []int{3, 3, 4, 7, 7})
		lines := make([][]int, n)
		var sb strings.Builder
		fmt.Fprintf(&sb, "%d\n", n)
		// tokens that look like something else when they stand alone at the end of a cut file: a bare 0, 1, the
		// number of points still owed, the point count itself.  One line of every file is guaranteed to start with
		// one (the kind rotates over the files), the others get one with chance 1/4; most values stay non-zero so
		// that a zero placeholder is distinguishable.
		special := func(i int) int { return []int{0, n - i - 1, 0, 1, n, 0, n - i}[(ptsSeq+i)%7] }
		forced := -1
		if n > 0 {
			forced = []int{n - 1, 0, n / 2}[ptsSeq%3]
		}
		ptsSeq++
		for i := range lines {
			lines[i] = make([]int, cols)
			for j := range lines[i] {
				if j < 3 {
					lines[i][j] = r.Range(-50, 50)
					if lines[i][j] == 0 {
						lines[i][j] = 51
					}
					if j == 0 && (i == forced || r.Chance(1, 4)) {
						lines[i][j] = special(i)
					} else if j > 0 && r.Chance(1, 10) {
						lines[i][j] = 0
					}
				} else {
					lines[i][j] = r.Range(1, 255) // non-zero so a zero placeholder is distinguishable
				}
				if j > 0 {
					sb.WriteString(hx.Pick(r, []string{" ", " ", " ", "  ", "\t", " \t "})) // one / several blanks, tab
				}
				// the same integer value in the spellings strconv accepts: sign, decimal point, exponent (every
				// shorter spelling a cut can leave reads as an integer or not at all)
				v := lines[i][j]
				switch r.Intn(8) {
				case 0:
					fmt.Fprintf(&sb, "%d.0", v)
				case 1:
					fmt.Fprintf(&sb, "%d.", v)
				case 2:
					fmt.Fprintf(&sb, "%de0", v)
				case 3:
					fmt.Fprintf(&sb, "%d0e-1", v)
				case 4:
					if v >= 0 {
						fmt.Fprintf(&sb, "+%d", v)
					} else {
						fmt.Fprintf(&sb, "%d", v)
					}
				default:
					fmt.Fprintf(&sb, "%d", v)
				}
			}
			sb.WriteByte('\n')
		}
		return fileDesc{Format: "pts", Hex: hex.EncodeToString([]byte(sb.String())), PtsCount: n, PtsLines: lines}, true
	case 5: // splat
		n := r.Range(0, 5)
		if big {
			n = r.Range(3, 30)
		}
		pos := make([]vector3.Float64, n)
		sc := make([]vector3.Float64, n)
		fdc := make([]vector3.Float64, n)
		op := make([]float64, n)
		rot := make([]vector4.Float64, n)
		for i := 0; i < n; i++ {
			pos[i] = vector3.New(float64(2*r.Range(-9, 9)+1), float64(2*r.Range(-9, 9)+1), float64(2*r.Range(-9, 9)+1))
			sc[i] = vector3.New(-1., 0.25, 0.5)
			fdc[i] = vector3.New(r.Float()-0.5, r.Float()-0.5, r.Float()-0.5)
			op[i] = r.Float()*4 - 2
			rot[i] = vector4.New(0.5, -0.5, 0.5, 0.5)
		}
		if n == 0 {
			return fileDesc{Format: "splat", Hex: ""}, true
		}
		m := modeling.NewPointCloud(
			map[string][]vector4.Float64{modeling.RotationAttribute: rot},
			map[string][]vector3.Float64{modeling.PositionAttribute: pos, modeling.ScaleAttribute: sc, modeling.FDCAttribute: fdc},
			nil, map[string][]float64{modeling.OpacityAttribute: op}, nil)
		if err := splat.Write(&buf, m); err != nil {
			return fileDesc{}, false
		}
		return fileDesc{Format: "splat", Hex: hex.EncodeToString(buf.Bytes())}, true
	case 6: // spz, independent encoder from the published layout: v1 (half floats) / v2 (24-bit fixed), degree 0-3
		// every (version, degree) pair in turn; the stored (uncompressed) level maps compressed cuts 1:1 to plaintext cuts
		ver := 1 + spzSeq%2
		deg := (spzSeq / 2) % 4
		spzSeq++
		shDim := []int{0, 3, 8, 15}[deg]
		n := r.Range(1, 4)
		if r.Chance(1, 8) {
			n = 0
		}
		if big {
			n = r.Range(3, 24)
		}
		var raw bytes.Buffer
		binary.Write(&raw, binary.LittleEndian, uint32(0x5053474e))
		binary.Write(&raw, binary.LittleEndian, uint32(ver))
		binary.Write(&raw, binary.LittleEndian, uint32(n))
		raw.Write([]byte{byte(deg), byte(r.Range(0, 23)), byte(r.Intn(2)), 0})
		posBytes := 9
		if ver == 1 {
			posBytes = 6
		}
		body := make([]byte, n*(posBytes+1+3+3+3+3*shDim))
		for i := range body {
			body[i] = byte(r.Range(1, 255)) // never 0: a zero-filled tail is distinguishable
		}
		if ver == 1 { // keep half floats finite: clear exponent-all-ones patterns
			for i := 0; i < n*3; i++ {
				body[2*i+1] &= 0x7b
				body[2*i+1] |= 0x01
			}
		}
		raw.Write(body)
		level := []int{gzip.NoCompression, gzip.DefaultCompression, gzip.BestSpeed}[(spzSeq-1)%3]
		zw, _ := gzip.NewWriterLevel(&buf, level)
		zw.Write(raw.Bytes())
		zw.Close()
		return fileDesc{Format: "spz", Sub: fmt.Sprintf("v%d-sh%d", ver, deg), Hex: hex.EncodeToString(buf.Bytes())}, true
	default:
		return genRefPly(r, big)
	}
}

// token boundaries of an ASCII text from offset [from]: positions right after a token ends (before the following
// white space) and right after each newline; len excluded (strict prefix).
func isWs(c byte) bool { return c == ' ' || c == '\n' || c == '\r' || c == '\t' }
func tokenBoundaries(b []byte, from int) []int {
	set := map[int]bool{}
	for i := from; i < len(b); i++ {
		if isWs(b[i]) && i > from && !isWs(b[i-1]) {
			set[i] = true
		}
		if i > 0 && b[i-1] == '\n' {
			set[i] = true
		}
	}
	out := make([]int, 0, len(set))
	for k := range set {
		out = append(out, k)
	}
	sort.Ints(out)
	return out
}

func tailOf(b []byte, n int) string {
	if len(b) > n {
		b = b[len(b)-n:]
	}
	return string(b)
}

func plyBodyStart(data []byte) int {
	he := bytes.Index(data, []byte("end_header\n"))
	if he < 0 {
		return len(data)
	}
	return he + len("end_header\n")
}

func cutsFor(d fileDesc, data []byte, thorough bool) []int {
	if d.Cuts != nil {
		return d.Cuts
	}
	var cuts []int
	switch {
	default:
		// every byte, for the ASCII formats too: right after a separator (one / several blanks, tab), right after a
		// sign, a decimal point, an exponent marker, inside a number, right after the value, on every line
		for k := 0; k < len(data); k++ {
			cuts = append(cuts, k)
		}
	}
	sort.Ints(cuts)
	out := cuts[:0]
	last := -1
	for _, k := range cuts {
		if k != last && k < len(data) {
			out = append(out, k)
		}
		last = k
	}
	limit := 1200
	if thorough {
		limit = 8192
	}
	if len(out) > limit {
		// stride sampling, but always the last 64 positions (trailing framing, last record)
		samp := make([]int, 0, limit+64)
		stride := float64(len(out)-64) / float64(limit-64)
		for i := 0; i < limit-64; i++ {
			samp = append(samp, out[int(float64(i)*stride)])
		}
		samp = append(samp, out[len(out)-64:]...)
		out = samp
	}
	return out
}

// what compress/flate (trusted oracle, not the decoder under test) yields for a compressed prefix
func inflatedLen(prefix []byte) int {
	zr, err := gzip.NewReader(bytes.NewReader(prefix))
	if err != nil {
		return 0
	}
	n, _ := io.Copy(io.Discard, zr)
	return int(n)
}
func inflateAll(data []byte) []byte {
	zr, err := gzip.NewReader(bytes.NewReader(data))
	if err != nil {
		return nil
	}
	out, _ := io.ReadAll(zr)
	return out
}

// prefix of the pts token view at byte cut k
func ptsTokensAt(data []byte, k int) (hasCount bool, lines [][]string) {
	txt := string(data[:k])
	parts := strings.Split(txt, "\n")
	if len(strings.Fields(parts[0])) > 0 {
		hasCount = true
	}
	for _, l := range parts[1:] {
		lines = append(lines, strings.Fields(l))
	}
	if len(lines) > 0 && len(lines[len(lines)-1]) == 0 {
		lines = lines[:len(lines)-1]
	}
	return
}

func plyCutPos(data []byte, bodyStart int, ascii bool, k int) string {
	if k < bodyStart {
		if k == 0 || data[k-1] == '\n' {
			return fmt.Sprintf("HLines %d", bytes.Count(data[:k], []byte("\n")))
		}
		return fmt.Sprintf("(HMid %d)", bytes.Count(data[:k], []byte("\n")))
	}
	if !ascii {
		return fmt.Sprintf("BBin %d", k-bodyStart)
	}
	body := data[bodyStart:k]
	j := bytes.Count(body, []byte("\n"))
	tail := body
	if i := bytes.LastIndexByte(body, '\n'); i >= 0 {
		tail = body[i+1:]
	}
	return fmt.Sprintf("BTok %d %d", j, len(plyx.Fields(string(tail))))
}

var pl = newPool(parallel)

// ---------- building a case ----------
func fileCase(d fileDesc, thorough bool) hx.Case {
	data, _ := hex.DecodeString(d.Hex)
	c := hx.Case{Kind: "file"}
	var bf bigFile
	kinds, dec := kindAll, d.Format
	if d.Gen != nil {
		bf = genBig(*d.Gen)
		data, kinds = bf.data, kindBig
		c.Kind = "big"
	}
	if d.Aux != "" {
		dec = d.Aux
		c.Kind = "aux"
	}
	full := pl.decodeWith(dec, data, kinds)
	if full.Cls != clsOk {
		c.GoFail = fmt.Sprintf("the complete %s file does not decode (%s): generator problem or decoder defect", dec, full.Msg)
		c.FailKey = "c14:full-file-rejected"
	}
	var cuts []int
	switch {
	case d.Cuts != nil:
		cuts = d.Cuts
	case d.Gen != nil:
		bs := 0
		if d.Format == "ply" {
			bs = plyBodyStart(data)
		} else if d.Format == "pts" {
			bs = bytes.IndexByte(data, '\n') + 1
		}
		cuts = bigCuts(*d.Gen, bf, bs, thorough)
	default:
		cuts = cutsFor(d, data, thorough)
	}
	var res []outcome
	if pl.hangs < hangLimit {
		res = pl.decodeAllLimited(dec, data, cuts, kinds)
	}
	obs := make([]string, 0, len(cuts))
	bad := func(k int, why string) {
		if d.BadCut == nil {
			kk := k
			d.BadCut, d.BadWhy = &kk, why
		}
	}
	// format specific context
	var need, bodyStart int
	var plain []byte
	ascii := strings.HasPrefix(d.Sub, "ascii")
	switch d.Format {
	case "stl":
		need = len(data)
	case "ply":
		bodyStart = plyBodyStart(data)
		need = len(data)
		if ascii {
			for need > bodyStart && isWs(data[need-1]) {
				need--
			}
			// surplus tokens of the last line are trailing framing too
			for i := 0; i < d.Surplus && need > bodyStart; i++ {
				for need > bodyStart && !isWs(data[need-1]) {
					need--
				}
				for need > bodyStart && isWs(data[need-1]) {
					need--
				}
			}
		}
	case "pts": // big files only (framed judgement): the end of the last token
		need = len(data)
		for need > 0 && isWs(data[need-1]) {
			need--
		}
	case "spz":
		plain = inflateAll(data)
		want := len(plain)
		if d.Aux == "spzh" {
			want = 16 // the header reader needs the first 16 plaintext bytes only
		}
		// first compressed cut whose inflated prefix holds the [want] bytes; inflatedLen is monotone in the cut
		lo, hi := 0, len(data)
		for lo < hi {
			mid := (lo + hi) / 2
			if inflatedLen(data[:mid]) >= want {
				hi = mid
			} else {
				lo = mid + 1
			}
		}
		need = lo
	}
	lastTokStart := need
	if d.Format == "ply" && ascii {
		for lastTokStart > bodyStart && !isWs(data[lastTokStart-1]) {
			lastTokStart--
		}
	}
	framed := d.Gen != nil || d.Aux != "" // judged as a framed decoder without a model: CFramed / CSplatBig
	for i, k := range cuts {
		if i >= len(res) || res[i].Cls < 0 {
			continue // not explored (hang limit reached)
		}
		o := res[i]
		if o.Cls == clsCrash || o.Cls == clsHang || o.Cls == clsDep {
			bad(k, fmt.Sprintf("class %d: %s", o.Cls, o.Msg))
		}
		if framed && d.Format != "splat" {
			if d.Gen == nil && d.Format == "ply" && ascii && k > lastTokStart && k < need && !isWs(data[k-1]) && !isWs(data[k]) {
				continue // inside the last promised value (see below)
			}
			eq := o.Cls == clsOk && o.Digest == full.Digest
			if o.Cls == clsOk && (k < need || !eq) {
				bad(k, fmt.Sprintf("%s accepted a prefix of %d bytes (%d needed), same result as for the complete file: %v", dec, k, need, eq))
			}
			obs = append(obs, fmt.Sprintf("(%d,%d,%s)", k, o.Cls, hx.CoqBool(eq)))
			continue
		}
		switch d.Format {
		case "splat":
			eq := o.Cls == clsOk && o.N <= len(full.Recs) && len(o.Recs) == o.N
			if eq {
				for j := 0; j < o.N; j++ {
					eq = eq && o.Recs[j] == full.Recs[j]
				}
			}
			if o.Cls == clsOk && (o.N != k/32 || !eq || o.HasErr != (k%32 != 0)) {
				bad(k, fmt.Sprintf("returned %d splats (error=%v) for %d bytes", o.N, o.HasErr, k))
			}
			obs = append(obs, fmt.Sprintf("(%d,%d,(%d,%s,%s))", k, o.Cls, o.N, hx.CoqBool(o.HasErr), hx.CoqBool(eq)))
		case "pts":
			rs := "None"
			if o.Cls == clsOk {
				rs = "(Some " + o.Pts + ")"
			}
			hasCount, lines := ptsTokensAt(data, k)
			j, m := len(lines), 0
			if len(lines) > 0 && k > 0 && data[k-1] != '\n' {
				j, m = len(lines)-1, len(lines[len(lines)-1])
			}
			// a cut inside a number: the last token present is a shorter spelling of it
			ptok := "PNone"
			if k > 0 && k < len(data) && !isWs(data[k-1]) && !isWs(data[k]) && bytes.IndexByte(data[:k], '\n') >= 0 && m > 0 {
				m--
				part := lines[len(lines)-1][m]
				if v, err := strconv.ParseFloat(part, 64); err == nil && v == math.Trunc(v) && math.Abs(v) < 1e9 {
					ptok = fmt.Sprintf("(PVal %s)", hx.CoqZ(int64(v)))
				} else {
					ptok = "PBad"
				}
			}
			if o.Cls == clsOk {
				// names the offending cut in the replay; the judgement itself is no_placeholderb in Coq
				all := lines
				okLines := hasCount && len(all) >= d.PtsCount && o.N == d.PtsCount && !(ptok == "PBad" && (m <= 3 || m == 6))
				for i := 0; okLines && i < d.PtsCount; i++ {
					okLines = len(all[i]) >= 3 && len(all[i]) == len(all[0])
				}
				if !okLines {
					bad(k, fmt.Sprintf("returned %d points for the prefix ending %q: %d complete lines and %d complete tokens of the next (%s)", o.N, tailOf(data[:k], 24), j, m, ptok))
				}
			}
			obs = append(obs, fmt.Sprintf("((%s,%d%%nat,%d%%nat,%s),%d,%s)", hx.CoqBool(hasCount), j, m, ptok, o.Cls, rs))
		default:
			insideTok := d.Format == "ply" && ascii && k > bodyStart && k < len(data) && !isWs(data[k-1]) && !isWs(data[k])
			if insideTok && k > lastTokStart && k < need {
				// inside the last value the header promises: the prefix is (if the shorter spelling still reads as a
				// number) a complete valid file with another value -- not a cut the property speaks about
				continue
			}
			eq := o.Cls == clsOk && o.Digest == full.Digest
			if o.Cls == clsOk && (k < need || !eq) {
				bad(k, fmt.Sprintf("accepted a prefix of %d bytes (%d needed), same mesh as the complete file: %v", k, need, eq))
			}
			switch d.Format {
			case "spz":
				obs = append(obs, fmt.Sprintf("(%d,%d,%s,%d)", k, o.Cls, hx.CoqBool(eq), inflatedLen(data[:k])))
			case "ply":
				pos := plyCutPos(data, bodyStart, ascii, k)
				if insideTok {
					pos = "NoModel" // a number cut in the middle: judged by the direct oracle only (must be rejected)
				}
				obs = append(obs, fmt.Sprintf("(%d,%d,%s,%s)", k, o.Cls, hx.CoqBool(eq), pos))
			default:
				obs = append(obs, fmt.Sprintf("(%d,%d,%s)", k, o.Cls, hx.CoqBool(eq)))
			}
		}
	}
	if framed {
		what := dec + "/" + d.Sub
		if d.Gen != nil {
			what = fmt.Sprintf("%s/%s n=%d", d.Format, d.Gen.Sub, d.Gen.N)
			c.Key = fmt.Sprintf("big|%s|%s|%d|%d", d.Format, d.Gen.Sub, d.Gen.N, d.Gen.Seed)
		} else {
			c.Key = d.Aux + d.Sub + d.Hex
		}
		if d.Format == "splat" {
			c.Coq = fmt.Sprintf("CSplatBig %d [%s]", len(data), strings.Join(obs, ";"))
		} else {
			c.Coq = fmt.Sprintf("CFramed %s %d %d [%s]", hx.CoqString(what), len(data), need, strings.Join(obs, ";"))
		}
		c.Desc = d
		c.Nontriv = len(obs) > 20
		return c
	}
	switch d.Format {
	case "stl":
		c.Coq = fmt.Sprintf("CStl %s [%s]", hx.CoqListN(data), strings.Join(obs, ";"))
	case "splat":
		c.Coq = fmt.Sprintf("CSplat %s [%s]", hx.CoqListN(data), strings.Join(obs, ";"))
	case "pts":
		ls := make([]string, len(d.PtsLines))
		for i, l := range d.PtsLines {
			zs := make([]int64, len(l))
			for j, v := range l {
				zs[j] = int64(v)
			}
			ls[i] = hx.CoqListZ(zs)
		}
		c.Coq = fmt.Sprintf("CPts %s [%s] [%s]", hx.CoqZ(int64(d.PtsCount)), strings.Join(ls, ";"), strings.Join(obs, ";"))
	case "spz":
		c.Coq = fmt.Sprintf("CSpz %d %d %s [%s]", len(data), need, hx.CoqListN(plain), strings.Join(obs, ";"))
	case "ply":
		fc, ok := plyx.FileCoq(data)
		if !ok {
			fc = "{| pf_header := []; pf_body := BodyBin [] |}"
			for i := range obs { // no model view of this file: class comparison skipped
				obs[i] = obs[i][:strings.LastIndex(obs[i], ",")] + ",NoModel)"
			}
		}
		c.Coq = fmt.Sprintf("CPly %d %d %s [%s]", len(data), need, fc, strings.Join(obs, ";"))
	}
	c.Desc = d
	c.Nontriv = len(obs) > 20
	c.Key = d.Format + d.Sub + d.Hex
	return c
}

// decodeAllLimited: decodeAll that stops exploring once the hang limit is reached (unexplored cuts get class -1)
func (p *pool) decodeAllLimited(format string, data []byte, cuts []int, kinds int) []outcome {
	out := make([]outcome, len(cuts))
	for i := range out {
		out[i].Cls = -1
	}
	const chunk = 4 * parallel
	for s := 0; s < len(cuts); s += chunk {
		p.mu.Lock()
		h := p.hangs
		p.mu.Unlock()
		if h >= hangLimit {
			break
		}
		e := s + chunk
		if e > len(cuts) {
			e = len(cuts)
		}
		copy(out[s:e], p.decodeAll(format, data, cuts[s:e], parallel, kinds))
	}
	return out
}

// ---------- hostile counts: a short stream whose header announces a huge number of records ----------
func le32(v uint32) []byte { b := make([]byte, 4); binary.LittleEndian.PutUint32(b, v); return b }
func gz(b []byte) []byte {
	var buf bytes.Buffer
	zw := gzip.NewWriter(&buf)
	zw.Write(b)
	zw.Close()
	return buf.Bytes()
}
func hostileStreams() []hostileDesc {
	var out []hostileDesc
	add := func(format, what string, declared uint64, data []byte) {
		out = append(out, hostileDesc{Format: format, What: what, Hex: hex.EncodeToString(data), Declared: declared})
	}
	const big = 2147483647
	add("stl", "80-byte header, triCount = 2^31-1, one record", big, append(append(make([]byte, 80), le32(big)...), make([]byte, 50)...))
	plyHdr := func(f string, n uint64) string {
		return fmt.Sprintf("ply\nformat %s 1.0\nelement vertex %d\nproperty float x\nproperty float y\nproperty float z\nend_header\n", f, n)
	}
	add("ply", "binary PLY, element vertex 2^31-1, one record", big, append([]byte(plyHdr("binary_little_endian", big)), make([]byte, 12)...))
	add("ply", "ASCII PLY, element vertex 2^31-1, one line", big, []byte(plyHdr("ascii", big)+"1 2 3\n"))
	add("ply", "binary PLY, 1 vertex, element face 2^31-1, no face data", big,
		append([]byte("ply\nformat binary_little_endian 1.0\nelement vertex 1\nproperty float x\nproperty float y\nproperty float z\nelement face 2147483647\nproperty list uchar int vertex_indices\nend_header\n"), make([]byte, 12)...))
	add("pts", "count line 2000000000, one point", 2000000000, []byte("2000000000\n1 2 3\n"))
	spzHdr := func(n uint32) []byte {
		return append(append(append(le32(0x5053474e), le32(2)...), le32(n)...), 3, 12, 0, 0)
	}
	add("spz", "SPZ v2, numPoints = 10000000 (the reader's own maximum), degree 3, no arrays", 10000000, gz(spzHdr(10000000)))
	add("spz", "SPZ v2, numPoints = 2^32-1", 4294967295, gz(spzHdr(4294967295)))
	return out
}

const hostileKey = "c14:alloc-by-declared-count"

func hostileCase(h hostileDesc) (hx.Case, outcome) {
	data, _ := hex.DecodeString(h.Hex)
	o := pl.decodeFresh(h.Format, data)
	peak := o.PeakMB
	if peak < 0 {
		peak = 0
	}
	ms := o.CpuUs / 1000 // user CPU time of the decode: does not depend on the load of the machine
	if o.Cls == clsHang {
		ms = deadlineFor(len(data)).Milliseconds() + 1001
	}
	c := hx.Case{Kind: "hostile", Desc: h, Key: "hostile" + h.Hex, Nontriv: true,
		Coq: fmt.Sprintf("CHostile %s %d %d %d %d %d", hx.CoqString(h.Format), len(data), h.Declared, o.Cls, ms, peak)}
	if !(o.Cls == clsErr && ms <= 2000 && peak <= 256) {
		c.FailKey = hostileKey
	}
	return c, o
}

// the hostile stream is judged (not only reported) once the coordinator lists the finding
func hostileJudged() bool {
	if v := os.Getenv("C14_JUDGE_HOSTILE"); v != "" {
		return v == "1"
	}
	for _, p := range []string{"known_findings.json", filepath.Join(os.Getenv("VERIF_ROOT"), "known_findings.json"), "/verif/known_findings.json"} {
		if raw, err := os.ReadFile(p); err == nil {
			return bytes.Contains(raw, []byte(hostileKey))
		}
	}
	return false
}

func main() {
	if len(os.Args) > 1 && os.Args[1] == "-worker" {
		workerMain()
		return
	}
	run := hx.ParseFlags("C14", "Check.C14")
	defer pl.close()
	thorough := run.Tier == "thorough"
	if thorough {
		bigMax = 40
	}
	r := hx.NewRng(run.Seed)
	for _, in := range run.Inputs() {
		if in.Kind == "hostile" {
			var h hostileDesc
			json.Unmarshal(in.Raw, &h)
			c, _ := hostileCase(h)
			run.Add(c)
			continue
		}
		var d fileDesc
		json.Unmarshal(in.Raw, &d)
		if run.Replay != "" && d.BadCut != nil && d.Cuts == nil {
			d.Cuts = []int{*d.BadCut} // a replay is the pair (file, cut)
		}
		d.BadCut, d.BadWhy = nil, ""
		run.Add(fileCase(d, thorough))
	}
	if run.Replay != "" {
		pl.close()
		run.Finish()
		return
	}
	total := 0
	for i := 0; i < run.N && pl.hangs < hangLimit; i++ {
		big := thorough && i%5 == 4 || !thorough && i%11 == 10 // 11 and 5 are coprime to nKinds: every kind gets big files
		d, ok := genFile(r, i%nKinds, big)
		if !ok {
			run.Count("generator:writer-failed")
			continue
		}
		c := fileCase(d, thorough)
		run.Count("format:" + d.Format + "/" + d.Sub)
		total += strings.Count(c.Coq, ";(") + 1
		run.Add(c)
		// the other readers of the anchored files, on the same file and cuts: ply.MeshReader with a caller-made
		// configuration (every second PLY file), spz.ReadHeader (every SPZ file)
		aux := ""
		if d.Format == "ply" {
			if plySeq++; plySeq%2 == 0 {
				aux = "plyc"
			}
		} else if d.Format == "spz" {
			aux = "spzh"
		}
		if aux != "" && pl.hangs < hangLimit {
			d.Aux = aux
			c := fileCase(d, thorough)
			run.Count("aux:" + aux + "/" + d.Sub)
			total += strings.Count(c.Coq, ";(") + 1
			run.Add(c)
		}
	}
	// big files: sizes past the readers' internal thresholds, cuts sampled around block boundaries
	bigFiles := []string{}
	var bigWall time.Duration
	if os.Getenv("C14_NO_BIG") == "" {
		for _, g := range bigPlan(run.Seed, thorough) {
			if pl.hangs >= hangLimit {
				break
			}
			g := g
			t0 := time.Now()
			c := fileCase(fileDesc{Format: g.Format, Sub: g.Sub, Gen: &g}, thorough)
			bigWall += time.Since(t0)
			nc := strings.Count(c.Coq, ";(") + 1
			run.Count("big:" + g.Format + "/" + g.Sub)
			bigFiles = append(bigFiles, fmt.Sprintf("%s/%s n=%d: %d cuts, %d ms", g.Format, g.Sub, g.N, nc, time.Since(t0).Milliseconds()))
			total += nc
			run.Add(c)
		}
	}
	run.Extra["big_files"] = bigFiles
	run.Extra["big_files_wall_ms"] = bigWall.Milliseconds()
	// hostile counts
	judged := hostileJudged()
	hostile := []map[string]interface{}{}
	for _, h := range hostileStreams() {
		c, o := hostileCase(h)
		hostile = append(hostile, map[string]interface{}{"format": h.Format, "what": h.What, "bytes": len(h.Hex) / 2,
			"declared": h.Declared, "class": o.Cls, "ms": o.Micros / 1000, "cpu_ms": o.CpuUs / 1000, "sys_ms": o.SysUs / 1000, "peak_mb": o.PeakMB, "msg": o.Msg,
			"within_input_proportional_budget": c.FailKey == ""})
		if judged || c.FailKey == "" {
			run.Add(c)
		}
	}
	run.Extra["hostile_counts"] = hostile
	run.Extra["hostile_counts_judged"] = judged
	run.Extra["prefix_decodes"] = total
	run.Extra["decode_calls"] = pl.calls
	run.Extra["hangs"] = pl.hangs
	run.Extra["decoder_process_deaths"] = pl.died
	run.Extra["reader_kinds"] = readerKinds
	run.Extra["decodes_retried_alone"] = pl.starved
	run.Extra["deadline"] = "CPU time of the decoding process: 1 s + 1 us per byte and reader kind (user; x4 for user+system); wall clock only as an inactivity limit (30 s + 10 us/byte); a first miss of either is retried once alone in a fresh process, the second miss is the observation; child process, RLIMIT_AS 3 GiB"
	pl.close()
	run.Finish()
}
