package plyx

import (
	"bytes"
	"io"
	"os"
	"path/filepath"
	"time"

	"github.com/EliCDavis/polyform/formats/ply"
	"github.com/EliCDavis/polyform/modeling"
	"github.com/EliCDavis/polyform/nodes"
)

// SafeReadLong is SafeRead with a deadline fit for files of a few hundred kilobytes on a loaded machine.
func SafeReadLong(data []byte) Outcome {
	return Guard(30*time.Second, func() (*modeling.Mesh, error) { return ply.ReadMesh(bytes.NewReader(data)) })
}

// TopoCoq names the topology as a PlyRead.topo; ok=false for anything but points and triangles.
func TopoCoq(m *modeling.Mesh) (string, bool) {
	switch m.Topology() {
	case modeling.TriangleTopology:
		return "TTriangle", true
	case modeling.PointTopology:
		return "TPoint", true
	}
	return "TPoint", false
}

// shortReader hands the data out in pieces of varying size (an io.Reader may return fewer bytes than asked for).
type shortReader struct {
	data []byte
	pos  int
	s    uint64
}

func (c *shortReader) Read(p []byte) (int, error) {
	if c.pos >= len(c.data) {
		return 0, io.EOF
	}
	if len(p) == 0 {
		return 0, nil
	}
	c.s = c.s*6364136223846793005 + 1442695040888963407
	n := 1 + int((c.s>>33)%997)
	if n > len(p) {
		n = len(p)
	}
	if n > len(c.data)-c.pos {
		n = len(c.data) - c.pos
	}
	copy(p, c.data[c.pos:c.pos+n])
	c.pos += n
	return n, nil
}

// OtherPaths reads the same bytes the other ways polyform offers and returns a description of the first way whose
// result differs from want (the outcome of ReadMesh on a bytes.Reader), "" when all agree: a reader that returns short
// reads, ply.Load on a file (bufio.Reader around *os.File), and the ReadNode wrapper of formats/ply/types.go (which
// returns the mesh, or an empty point mesh when the file does not load).
func OtherPaths(data []byte, want Outcome, dir string) string {
	same := func(o Outcome) bool {
		if o.Class != want.Class {
			return false
		}
		if o.Class != "mesh" {
			return true
		}
		a, _ := MeshCoq(o.Mesh)
		b, _ := MeshCoq(want.Mesh)
		return a == b
	}
	short := Guard(30*time.Second, func() (*modeling.Mesh, error) {
		return ply.ReadMesh(&shortReader{data: data, s: uint64(len(data))})
	})
	if !same(short) {
		return "a reader that returns short reads: " + short.Class + " " + short.Msg + " (bytes.Reader: " + want.Class + ")"
	}
	path := filepath.Join(dir, "c08-load.ply")
	if err := os.WriteFile(path, data, 0o644); err == nil {
		file := Guard(30*time.Second, func() (*modeling.Mesh, error) { return ply.Load(path) })
		os.Remove(path)
		if !same(file) {
			return "ply.Load on a file: " + file.Class + " " + file.Msg + " (bytes.Reader: " + want.Class + ")"
		}
	}
	if want.Class == "mesh" {
		node := Guard(30*time.Second, func() (*modeling.Mesh, error) {
			m, err := ply.ReadNodeData{In: nodes.Value(data).Out()}.Process()
			return &m, err
		})
		if !same(node) {
			return "ReadNode: " + node.Class + " " + node.Msg + " (bytes.Reader: mesh)"
		}
	}
	return ""
}
