package plyx

import (
	"bytes"
	"time"

	"github.com/EliCDavis/polyform/formats/ply"
	"github.com/EliCDavis/polyform/modeling"
)

// SafeReadLong is SafeRead with a deadline fit for files of a few hundred kilobytes on a loaded machine.
func SafeReadLong(data []byte) Outcome {
	return Guard(30*time.Second, func() (*modeling.Mesh, error) { return ply.ReadMesh(bytes.NewReader(data)) })
}

// TopoCoq names the topology as a PlyRead.topo; ok=false for anything but points and triangles.
func TopoCoq(m *modeling.Mesh) (string, bool) {
	switch m.Topology() {
	case modeling.TriangleTopology:
		return "TTriangle", true
	case modeling.PointTopology:
		return "TPoint", true
	}
	return "TPoint", false
}
