// Package plyx: pieces shared by the C04 and C08 harnesses — running ply.ReadMesh safely, an independent
// tokenizer that turns PLY bytes into the Coq term of type Formats.PlyRead.plyfile, and the rendering of a
// modeling.Mesh as a Formats.PlyRead.mesh (float64 bit patterns).
package plyx

import (
	"bytes"
	"fmt"
	"math"
	"runtime"
	"sort"
	"strconv"
	"strings"
	"time"

	"verif/harness/hx"

	"github.com/EliCDavis/polyform/formats/ply"
	"github.com/EliCDavis/polyform/modeling"
)

type Outcome struct {
	Class string // mesh | declared | crash | hang
	Mesh  *modeling.Mesh
	Msg   string
}

// Guard runs f under recover() in a goroutine with a deadline.
func Guard(deadline time.Duration, f func() (*modeling.Mesh, error)) Outcome {
	ch := make(chan Outcome, 1)
	go func() {
		var o Outcome
		defer func() {
			if rec := recover(); rec != nil {
				if _, isRt := rec.(runtime.Error); isRt {
					o = Outcome{Class: "crash", Msg: fmt.Sprint(rec)}
				} else if e, isErr := rec.(error); isErr {
					o = Outcome{Class: "declared", Msg: "panic(error): " + e.Error()}
				} else {
					o = Outcome{Class: "crash", Msg: fmt.Sprint(rec)}
				}
			}
			ch <- o
		}()
		m, err := f()
		if err != nil {
			o = Outcome{Class: "declared", Msg: err.Error()}
		} else {
			o = Outcome{Class: "mesh", Mesh: m}
		}
	}()
	select {
	case o := <-ch:
		return o
	case <-time.After(deadline):
		return Outcome{Class: "hang", Msg: "no result within " + deadline.String()}
	}
}

func SafeRead(data []byte) Outcome {
	return Guard(3*time.Second, func() (*modeling.Mesh, error) { return ply.ReadMesh(bytes.NewReader(data)) })
}

func f64(x float64) string { return strconv.FormatUint(math.Float64bits(x), 10) }

func rowsCoq(rows [][]float64) string {
	var b strings.Builder
	b.WriteByte('[')
	for i, r := range rows {
		if i > 0 {
			b.WriteByte(';')
		}
		b.WriteByte('[')
		for j, x := range r {
			if j > 0 {
				b.WriteByte(';')
			}
			b.WriteString(f64(x))
		}
		b.WriteByte(']')
	}
	b.WriteByte(']')
	return b.String()
}

// Attr is one mesh attribute: dimension, name, rows.
type Attr struct {
	Dim  int
	Name string
	Rows [][]float64
}

// Attrs lists every attribute of m sorted by (dimension, name).
func Attrs(m *modeling.Mesh) []Attr {
	var out []Attr
	for _, n := range sorted(m.Float1Attributes()) {
		d := m.Float1Attribute(n)
		rows := make([][]float64, d.Len())
		for i := range rows {
			rows[i] = []float64{d.At(i)}
		}
		out = append(out, Attr{1, n, rows})
	}
	for _, n := range sorted(m.Float2Attributes()) {
		d := m.Float2Attribute(n)
		rows := make([][]float64, d.Len())
		for i := range rows {
			v := d.At(i)
			rows[i] = []float64{v.X(), v.Y()}
		}
		out = append(out, Attr{2, n, rows})
	}
	for _, n := range sorted(m.Float3Attributes()) {
		d := m.Float3Attribute(n)
		rows := make([][]float64, d.Len())
		for i := range rows {
			v := d.At(i)
			rows[i] = []float64{v.X(), v.Y(), v.Z()}
		}
		out = append(out, Attr{3, n, rows})
	}
	for _, n := range sorted(m.Float4Attributes()) {
		d := m.Float4Attribute(n)
		rows := make([][]float64, d.Len())
		for i := range rows {
			v := d.At(i)
			rows[i] = []float64{v.X(), v.Y(), v.Z(), v.W()}
		}
		out = append(out, Attr{4, n, rows})
	}
	return out
}

func sorted(xs []string) []string {
	o := append([]string(nil), xs...)
	sort.Strings(o)
	return o
}

func Indices(m *modeling.Mesh) []int64 {
	idx := m.Indices()
	out := make([]int64, idx.Len())
	for i := range out {
		out[i] = int64(idx.At(i))
	}
	return out
}

// MeshCoq renders m as a PlyRead.mesh; topologies other than point/triangle are rendered as point with ok=false.
func MeshCoq(m *modeling.Mesh) (string, bool) {
	ok := true
	topo := "TPoint"
	switch m.Topology() {
	case modeling.TriangleTopology:
		topo = "TTriangle"
	case modeling.PointTopology:
	default:
		ok = false
	}
	items := []string{}
	for _, a := range Attrs(m) {
		items = append(items, fmt.Sprintf("(%d%%nat, %s%%string, %s)", a.Dim, hx.CoqString(a.Name), rowsCoq(a.Rows)))
	}
	return fmt.Sprintf("{| m_topo := %s; m_idx := %s; m_attrs := [%s] |}", topo, hx.CoqListZ(Indices(m)), strings.Join(items, "; ")), ok
}

func OutcomeCoq(o Outcome) string {
	switch o.Class {
	case "mesh":
		s, _ := MeshCoq(o.Mesh)
		return "(OMesh " + s + ")"
	case "declared":
		return "ODeclared"
	case "crash":
		return "OCrash"
	}
	return "OHang"
}

// ---- independent tokenizer ----

// Fields splits on ASCII white space (what strings.Fields does for ASCII input), written out by hand.
func Fields(s string) []string {
	var out []string
	start := -1
	for i := 0; i < len(s); i++ {
		c := s[i]
		sp := c == ' ' || c == '\t' || c == '\r' || c == '\n' || c == '\v' || c == '\f'
		if sp {
			if start >= 0 {
				out = append(out, s[start:i])
				start = -1
			}
		} else if start < 0 {
			start = i
		}
	}
	if start >= 0 {
		out = append(out, s[start:])
	}
	return out
}

func TokCoq(s string) string {
	f, ferr := strconv.ParseFloat(s, 64)
	z, zerr := strconv.ParseInt(s, 10, 32)
	switch {
	case ferr != nil:
		return "TBad"
	case zerr == nil:
		return fmt.Sprintf("TI %s %d", hx.CoqZ(z), math.Float64bits(f))
	default:
		return fmt.Sprintf("TF %d", math.Float64bits(f))
	}
}

func strsCoq(xs []string) string {
	items := make([]string, len(xs))
	for i, x := range xs {
		items[i] = hx.CoqString(x)
	}
	return "[" + strings.Join(items, ";") + "]%string"
}

// Split cuts data into header lines (fields per line, '\r' dropped, up to and including end_header), the
// format named on the format line, and the body bytes.
func Split(data []byte) (hdr [][]string, format string, body []byte, ok bool) {
	pos := 0
	for pos < len(data) {
		nl := bytes.IndexByte(data[pos:], '\n')
		if nl < 0 {
			return hdr, format, nil, false
		}
		line := strings.ReplaceAll(string(data[pos:pos+nl]), "\r", "")
		pos += nl + 1
		f := Fields(line)
		hdr = append(hdr, f)
		if len(f) == 3 && f[0] == "format" && format == "" {
			format = f[1]
		}
		if len(f) == 1 && f[0] == "end_header" {
			return hdr, format, data[pos:], true
		}
	}
	return hdr, format, nil, false
}

// FileCoq renders data as a PlyRead.plyfile. Printable ASCII header assumed.
func FileCoq(data []byte) (string, bool) {
	hdr, format, body, ok := Split(data)
	if !ok {
		return "", false
	}
	hl := make([]string, len(hdr))
	for i, l := range hdr {
		hl[i] = strsCoq(l)
	}
	var b string
	if format == "ascii" {
		lines := strings.Split(string(body), "\n")
		if len(lines) > 0 && lines[len(lines)-1] == "" {
			lines = lines[:len(lines)-1] // text after the last '\n' is empty: bufio.Scanner yields no line for it
		}
		ls := make([]string, len(lines))
		for i, l := range lines {
			l = strings.TrimSuffix(l, "\r")
			fs := Fields(l)
			if len(fs) == 0 && l != "" {
				ok = false // white-space-only line: polyform does not skip it, the model would
			}
			ts := make([]string, len(fs))
			for j, t := range fs {
				ts[j] = TokCoq(t)
			}
			ls[i] = "[" + strings.Join(ts, ";") + "]"
		}
		b = "BodyAscii [" + strings.Join(ls, ";\n  ") + "]"
	} else {
		b = "BodyBin " + hx.CoqListN(body)
	}
	return fmt.Sprintf("{| pf_header := [%s]; pf_body := %s |}", strings.Join(hl, ";\n  "), b), ok
}
