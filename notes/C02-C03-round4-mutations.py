#!/usr/bin/env python3
"""round-4 hand-made mutations for C02/C03.  mut.py <id>...   Each in its own scratch worktree; the harnesses are built
against the worktree and their case shards evaluated with the Coq objects already built in /verif/coq (the Coq side does
not depend on the repository), i.e. bin/check minus the rebuild of the Coq tree (machine at load 200+)."""
import os, subprocess, sys, shutil, json, re, glob, time
import concurrent.futures as cf
VERIF = "/verif"
M = {}
def mut(id, file, old, new, note=""):
    M.setdefault(id, {"edits": [], "note": note})["edits"].append((file, old, new))
    if note: M[id]["note"] = note

# ---- C02-oriented (ill-formed results)
M["A1"] = {"edits": [], "revert": "e801744", "note": "un-fix: SliceByPlane ignores the topology / attribute check"}
mut("A2", "modeling/mesh.go",
    "\t\tif vertLUUsed[vi] {\n\t\t\tfor key, vals := range m.v4Data {",
    "\t\tfor key, vals := range m.v1Data {\n\t\t\tfinalV1Data[key] = append(finalV1Data[key], vals[originalIndex])\n\t\t}\n\t\tif vertLUUsed[vi] {\n\t\t\tfor key, vals := range m.v4Data {",
    "weld: Float1 values copied for every rounded class, used or not (loop moved out of the if)")
mut("A2", "modeling/mesh.go",
    "\t\t\tfor key, vals := range m.v1Data {\n\t\t\t\tfinalV1Data[key] = append(finalV1Data[key], vals[originalIndex])\n\t\t\t}\n\n\t\t} else {",
    "\t\t} else {")
mut("A3", "modeling/triangulation/bowyer_watson.go", "\tif t[0] >= superStart {", "\tif t[0] > superStart {",
    "Bowyer-Watson clean-up: first corner compared with > (a triangle starting at the first super vertex survives)")
mut("A4", "modeling/meshops/filter_attribute.go", "\tcase modeling.TriangleTopology, modeling.QuadTopology:", "\tcase modeling.TriangleTopology:",
    "filters: quads filtered index by index again")
mut("A5", "modeling/meshops/unweld.go",
    "\tindices := make([]int, originalIndices.Len())\n\tfor i := 0; i < len(indices); i++ {\n\t\tindices[i] = i\n",
    "\tindices := make([]int, originalIndices.Len())\n\tlimit := len(indices)\n\tif limit > 4096 {\n\t\tlimit -= limit % 4096\n\t}\n\tfor i := 0; i < len(indices); i++ {\n\t\tindices[i] = i\n\t\tif i >= limit {\n\t\t\tcontinue\n\t\t}\n",
    "unweld: above 4096 corners the last len%4096 corners get an index but no attribute values (block remainder)")
mut("A6", "modeling/meshops/crop_transformer.go",
    "\t\tfor _, attr := range m.Float1Attributes() {\n\t\t\tv1[attr] = append(v1[attr], oldV1[attr].At(i))\n\t\t}\n\t}\n\n\treturn modeling.NewPointCloud",
    "\t\tfor _, attr := range m.Float1Attributes() {\n\t\t\tif oldV1[attr].At(i) == 0 {\n\t\t\t\tcontinue\n\t\t\t}\n\t\t\tv1[attr] = append(v1[attr], oldV1[attr].At(i))\n\t\t}\n\t}\n\n\treturn modeling.NewPointCloud",
    "crop: scalar attributes skip points whose value is 0 (sparse-scalar shortcut)")
mut("A7", "modeling/meshops/remove_unreferenced_vertices.go",
    "\tfor i := range shiftBy {\n\t\tif !used[i] {",
    "\tfor i := range shiftBy {\n\t\tif !used[i] && i > 0 {",
    "remove-unreferenced: an unreferenced vertex 0 is not counted in the shift table")
# ---- C03-oriented (content)
mut("B1", "modeling/mesh.go",
    "\tmAtrLength := m.AttributeLength()\n\toAtrLength := other.AttributeLength()\n\n\tfinalV1Data",
    "\tmAtrLength := m.AttributeLength()\n\toAtrLength := other.AttributeLength()\n\tif pos, ok := m.v3Data[PositionAttribute]; ok || len(m.v3Data) > 0 {\n\t\tmAtrLength = len(pos)\n\t}\n\n\tfinalV1Data",
    "Append: the receiver's vertex count is read off Position when the mesh has Float3 data (0 when Position is missing)")
mut("B2", "modeling/mesh.go",
    "\tmAtrLength := m.AttributeLength()\n\toAtrLength := other.AttributeLength()\n",
    "\tif len(other.indices) == 0 {\n\t\treturn m\n\t}\n\tmAtrLength := m.AttributeLength()\n\toAtrLength := other.AttributeLength()\n",
    "Append: a partner without indices is ignored (its vertices, attributes and materials are dropped)")
mut("B3", "modeling/meshops/remove_unreferenced_vertices.go",
    "\toriginalIndices := m.Indices()\n\n\tused := make",
    "\toriginalIndices := m.Indices()\n\tif originalIndices.Len() == m.AttributeLength() {\n\t\treturn m\n\t}\n\n\tused := make",
    "remove-unreferenced: early return when #indices == #vertices")
mut("B4", "modeling/meshops/slice_by_plane.go",
    "\t\tSetFloat2Data(v2Data).\n\t\tSetFloat1Data(v1Data).\n\t\tSetMaterials(m.Materials())\n\n\treturn",
    "\t\tSetFloat2Data(v2Data).\n\t\tSetMaterials(m.Materials())\n\n\treturn",
    "slice: the below half forgets the Float1 attributes")
mut("B5", "modeling/meshops/scale_attribute.go",
    "scaledData[i] = positionData.At(i).Add(normalData.At(i).Scale(amount))",
    "scaledData[i] = positionData.At(i).Add(normalData.At(i).Normalized().Scale(amount))",
    "scale-along-normal normalises the normal first")
mut("B6", "modeling/meshops/unweld.go",
    "\treturn modeling.\n\t\tNewMesh(m.Topology(), indices).",
    "\tif len(indices) > 4096 {\n\t\tfor _, d := range unweldedV2Data {\n\t\t\td[len(d)-1] = d[(len(d)-1)/4096*4096]\n\t\t}\n\t}\n\treturn modeling.\n\t\tNewMesh(m.Topology(), indices).",
    "unweld: above 4096 corners the last Float2 value is taken from the start of its block")
mut("B7", "modeling/mesh.go",
    "\toldData := m.v3Data[atr]\n\tmodified := make([]vector3.Float64, len(oldData))\n\n\tfor i, v := range oldData {",
    "\toldData := m.v3Data[atr]\n\tmodified := oldData\n\tif cap(oldData) == len(oldData) {\n\t\tmodified = make([]vector3.Float64, len(oldData))\n\t}\n\n\tfor i, v := range oldData {",
    "ModifyFloat3Attribute (Mesh.Scale) works in place when the array has spare capacity")
mut("B8", "modeling/mesh.go",
    "\t// Building tris from unique vertices\n\tnewTris := make([]int, 0)\n",
    "\t// Building tris from unique vertices\n\tnewTris := m.indices[:0]\n",
    "weld builds its index list in the receiver's index array")

for sid in ("C02-E", "C03-B", "C02-I", "C02-J", "C03-I", "C03-J"):
    M["S" + sid] = {"edits": [], "patch": "/verif/seeded/%s/patch.diff" % sid, "note": "seeded " + sid}

def sh(cmd, **kw):
    p = subprocess.run(cmd, stdout=subprocess.PIPE, stderr=subprocess.STDOUT, text=True, **kw)
    return p.returncode, p.stdout

def coqc(path):
    return sh(["timeout", "900", "coqc", "-R", VERIF + "/coq/theories", "PF", "-R", VERIF + "/coq/gen", "PFGen", path], cwd=os.path.dirname(path))

def evalrun(outdir):
    shards = sorted(glob.glob(outdir + "/cases_*.v"))
    bc, bp, err = [], [], 0
    with cf.ThreadPoolExecutor(max_workers=4) as ex:
        for rc, out in ex.map(coqc, shards):
            flat = re.sub(r"\s+", " ", out)
            m1 = re.search(r"bad_corr = (\[[^\]]*\])", flat); m2 = re.search(r"bad_prop = (\[[^\]]*\])", flat)
            if rc != 0 or not m1 or not m2:
                err += 1; continue
            bc += [int(x) for x in re.findall(r"\d+", m1.group(1))]
            bp += [int(x) for x in re.findall(r"\d+", m2.group(1))]
    return bc, bp, err

def run(mid, seed="1"):
    wt = "/tmp/wt-c0203-" + mid
    sh(["git", "-C", "/repo", "worktree", "remove", "--force", wt]); shutil.rmtree(wt, ignore_errors=True)
    sh(["git", "-C", "/repo", "worktree", "add", "--detach", wt, "HEAD"])
    res = {}
    try:
        if M[mid].get("patch"):
            p2 = subprocess.run(["git", "-C", wt, "apply", "--exclude=*_test.go", M[mid]["patch"]])
            assert p2.returncode == 0
        if M[mid].get("revert"):
            p1 = subprocess.run(["git", "-C", wt, "show", M[mid]["revert"]], stdout=subprocess.PIPE)
            p2 = subprocess.run(["git", "-C", wt, "apply", "-R"], input=p1.stdout)
            assert p2.returncode == 0
        for f, old, new in M[mid]["edits"]:
            p = os.path.join(wt, f); s = open(p).read()
            assert s.count(old) == 1, (mid, f, s.count(old))
            open(p, "w").write(s.replace(old, new))
        rc, out = sh(["go", "build", "./modeling/..."], cwd=wt)
        if rc != 0:
            return mid, "DOES NOT COMPILE " + out[-500:]
        work = "/tmp/c0203-mut/" + mid
        shutil.rmtree(work, ignore_errors=True); os.makedirs(work)
        mf = work + "/h.mod"
        open(mf, "w").write(open(VERIF + "/harness/go.mod").read().replace("=> /repo", "=> " + wt))
        shutil.copy(wt + "/go.sum", work + "/h.sum")
        for prop, n in (("c02", "1000"), ("c03", "1300")):
            rc, out = sh(["go", "build", "-trimpath", "-modfile=" + mf, "-tags", "verif", "-o", work + "/" + prop, "./cmd/" + prop], cwd=VERIF + "/harness")
            if rc != 0:
                res[prop] = "harness build failed " + out[-300:]; continue
            od = work + "/run-" + prop
            rc, out = sh(["timeout", "600", work + "/" + prop, "-seed", seed, "-n", n, "-out", od])
            gof = {}
            kinds = {}
            for l in open(od + "/cases.jsonl"):
                d = json.loads(l); kinds[d["id"]] = d["kind"] + ":" + str((d.get("desc") or {}).get("op", {}).get("op", "") if isinstance(d.get("desc"), dict) and isinstance((d.get("desc") or {}).get("op"), dict) else "")
                if d.get("go_oracle_fail"): gof[d["id"]] = d["go_oracle_fail"]
            bc, bp, err = evalrun(od)
            def summ(ids):
                c = {}
                for i in ids: c[kinds.get(i, "?")] = c.get(kinds.get(i, "?"), 0) + 1
                return dict(sorted(c.items(), key=lambda kv: -kv[1])[:4])
            verdict = "VIOLATION" if (bp or gof) else ("corr-only" if bc else "quiet")
            res[prop] = "%s prop=%d %s gofail=%d %s corr=%d shard-errors=%d" % (verdict, len(bp), summ(bp), len(gof), summ(gof.keys()), len(bc), err)
            if gof: res[prop] += " e.g. " + list(gof.values())[0][:160]
        return mid, M[mid]["note"], res
    finally:
        sh(["git", "-C", "/repo", "worktree", "remove", "--force", wt]); shutil.rmtree(wt, ignore_errors=True)

if __name__ == "__main__":
    for mid in sys.argv[1:]:
        r = run(mid)
        print(json.dumps(r), flush=True)
