import vlib

CFG = {
    "id": "C12", "harness": "c12",
    "check_vo": "theories/Check/C12.vo", "prop_vo": "theories/Properties/C12.vo",
    "prop_file": "theories/Properties/C12.v",
    "theory_files": ["theories/Graph/Schema.v", "theories/Graph/SchemaProofs.v",
                     "theories/Graph/Instance.v", "theories/Graph/InstanceProofs.v",
                     "theories/Graph/Values.v", "theories/Graph/ValuesProofs.v", "theories/Graph/SortedProofs.v", "theories/Graph/TypedProofs.v"],
    "level_text": "Coq theorems, for every edit history over every well-formed node-type table, about an executable "
                  "model of graph.Instance (id table, scalar/array ports, parameter records per parameter kind, "
                  "producers, metadata tree), EncodeToAppSchema (dependencies sorted by the code's comparator on "
                  "Coq strings with decimal printing, payloads appended in id order) and ApplyAppSchema (replay of "
                  "SetInput in file order, FromJSON): decode(encode s) = s, encode(decode(encode s)) = encode s, "
                  "numeric order of field.k names for all k, fresh ids; the same round trip WITHOUT side condition for the "
                  "repaired reader (decode_fixed: limited to the view's byteLength); continuation theorems (every "
                  "further history runs identically on the reloaded graph, the result reloads again, the next id is "
                  "fresh); a Gallina printer render : schema -> JSON text (encoding/json MarshalIndent layout, "
                  "escaping; float text, base64 and type names delegated) with render(encode(decode(encode s))) = "
                  "render(encode s), string escaping read back exactly (prefix-free, injective), integer text "
                  "injective; a TYPED value layer (Graph/Values.v: per parameter kind the value set, the tree "
                  "its MarshalJSON produces and the reading back; floats as number atoms with an IEEE-754 decoder deciding "
                  "integer vs bit-pattern atoms, WebColor's hex text in full): every well-formed value of every kind is read "
                  "back exactly, distinct values are saved differently, a parameter holding typed value x holds x after the "
                  "reload; order invariants after any history (no two nodes share an id, no two producers a name, node / "
                  "producer / top-level metadata tables in ascending bytewise key order, Go's string order is a strict total "
                  "order); witnesses refuting the pinned comparator "
                  "(11 array connections) and the File over-read. The model is tied to the Go code on every run by "
                  "evaluating it (vm_compute) on random histories run against the real instance and generator.App, "
                  "and the property is judged directly on the implementation's before/after structures, artifact "
                  "digests and save digests",
    "level_note": "Trusted: Coq kernel + vm_compute; hand-written model tied by differential correspondence only; JSON "
                  "text of a schema: the Gallina printer is compared byte for byte with App.Schema() on every history whose "
                  "file is <= 12 KiB and whose values avoid floats and U+2028/9 (about half of them), the rest is "
                  "covered by the byte-for-byte S1 = S2 comparison only; injectivity of the whole printer is not proved; parameter VALUES are "
                  "opaque trees to the instance model, the typed layer says which trees they are (checked on every observed "
                  "value: 'canonical'); decimal formatting of floats (strconv shortest digits), authors / webScene in the "
                  "printer, CLI flag state are not modelled; PNG encoding is Go's",
    "technique": "Coq proof (invariant over operation histories, insertion-sort/replay commutation, decimal "
                 "injectivity) + vm_compute correspondence check",
    "design_ref": "DESIGN.md §4 C12, §5 entries 13, 21, 22, 23",
    "n_quick": 60, "n_thorough": 2000,
    # round 4 additions to the rule are at the end of the text
    "rule": "random edit histories (create/delete/connect/disconnect incl. middle disconnects and whole-field clears/"
            "update/name/description/producer/set+delete metadata, ~3% rejected calls, ~8% READS in between: every "
            "artifact produced, Schema() and every ParameterData requested) in four flavours: general, one array "
            "input with 0-25 connections (>= 11 in about half; in half of them the artifact is produced before "
            "elements are disconnected), binary payloads (0-3 File and 0-2 Image parameters, cat/binary/image "
            "artifacts), wire encodings (4-10 parameters updated 1-3 times each with foreign PNG / JPEG / refused "
            "uploads and respelt JSON). Update messages and metadata bodies are respelt (white space, number forms, "
            "escapes, key order/case/duplicates) in half of all cases. Each history runs on the instance of a live "
            "generator.App (reads include the App.Schema() autosave): App.Schema() 4x + a graph-level save, load "
            "into a fresh generator.App (ApplySchema; saved 4x + graph level) and into a bare graph.Instance, "
            "compare structures (incl. what ParameterData denotes), "
            "artifact digests, file trees and sha256 of every save; then a CONTINUATION of 1-10 further edits (a "
            "create in most) is applied to the live and to the reloaded instance alike and both are compared "
            "again in full (op outcomes, structures, artifacts, file trees, bytes of 5 saves each). Plus fixed corner histories "
            "(decimal-width boundaries, one per picture encoding, multi-step uploads, warm caches, freed ids), the "
            "observed type table, and every examples/graphs/*.json (load, save S1, load, save S2). Round 4: half of "
            "all histories (and half of all continuations) end with save -> 1-2 edits of ONE kind -> save (all ten kinds "
            "counted), and the live application's save made after the continuation is loaded into a third application "
            "whose structure must equal the live one; producer names in 57 special forms (./x, a/../x, a//x, /x, x/, '', "
            "blanks, back-slashes, case / NFC-NFD variants, control characters) incl. as prefixes of every flavour's own "
            "names; special numbers (both zeros, subnormals, float64 / float32 / int range ends and beyond, 2^53+-1, "
            "1e21 / 1e-6 format switches), special strings (NUL, controls, U+2028/9, BOM, U+10FFFF, combining, RTL, "
            "JSON / HTML look-alikes, 255-2500 bytes) as values, names, descriptions, metadata values and keys; signed "
            "disconnect indices; authors / webScene / special strings in the application header (1 history in 3); "
            "6 + N/10 graphs BUILT IN CODE (App.Files -> AddProducer: ids by dependency walk, every Value[T] kind with "
            "registered name / description / default / CLI) saved, loaded, compared (structure, artifacts, trees, "
            "bytes). Fixed: 25 save-between histories (edit kind x parameter kind), all producer-name forms, special "
            "values per kind, File payloads (empty, 1 byte, all 256 byte values), deep / empty / special metadata. "
            "FILE-LEVEL path: two histories in three (and the fixed save-between / warm-cache / continuation ones) are "
            "persisted by a real generator.GraphSaver to a file in a temporary directory - Save() after every edit as the "
            "edit server's endpoints do, or at the reads and after the last edit - and the fresh application loads that "
            "file read back from disk; the file's bytes are one more save digest, before and after the continuation. "
            "distinct by op list; non-trivial = at least two nodes and one saved dependency",
    "trusted": ["sha256 digests of saves/artifacts computed by the harness (Go crypto/sha256)",
                "reading the saved file back into a tree is done by the harness with encoding/json + base64",
                "the 'modulo' second case of an over-read history is produced by truncating the File values "
                "through Instance.UpdateParameter in the reloaded instance; everything is then compared in full (the same "
                "cut is applied before the third load of a continuation's save is compared)",
                "generator.GraphSaver is constructed by the harness through reflect + unsafe (unexported fields app, "
                "savePath), as the edit server does with -autosave",
                "shipped-graph stream: .glb/.gltf artifacts are digested by content (extensionsUsed / extensionsRequired, "
                "sets of names that polyform's writer emits in Go map order, are sorted first; everything else as written)",
                "graphs built in code are judged on the implementation alone (CFile cases); the model does not cover "
                "AddProducer / the dependency walk of buildIDsForNode"],
    "modelled": ["strings.ToLower/EqualFold on ASCII only; strconv.Atoi on unsigned digit strings for saved dependency "
                 "names (generated by fmt %d), with an optional sign for the index of a disconnect request",
                 "a float value is the number atom the harness reads from encoding/json's text (int64 integer text -> "
                 "integer, else float64 bits); which atoms a float64 yields is decided in Coq from the IEEE-754 bits, the "
                 "decimal digits themselves are strconv's",
                 "sort.Slice modelled as insertion sort (unique result when the comparator is a strict total order "
                 "on the names, which the correspondence check observes)",
                 "deleting a node that others depend on is outside the property (model rejects, harness never does it)",
                 "reads (artifact production, Schema(), ParameterData) are not operations of the model: a read between "
                 "two edits is modelled as nothing happening; ParameterData is modelled by the value it denotes",
                 "File/Image default values are never written by the Go code (it tests the wrong field); the "
                 "registered factory has nil defaults, so this is not observable through the API"],
}


def main(argv):
    return vlib.standard_check(CFG, argv)
