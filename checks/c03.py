import vlib

THEORY = ["theories/Mesh/Pure.v", "theories/Mesh/PureLemmas.v", "theories/Mesh/PureProofs.v", "theories/Mesh/Case.v", "theories/Mesh/PureLaws.v", "theories/Mesh/AreaLaws.v", "theories/Mesh/Smooth.v", "theories/Mesh/SmoothProofs.v", "theories/Mesh/Normals.v", "theories/Mesh/NormalsProofs.v"]

CFG = {
    "id": "C03", "harness": "c03",
    "check_vo": "theories/Check/C03.vo", "prop_vo": "theories/Properties/C03.vo",
    "prop_file": "theories/Properties/C03.v",
    "theory_files": THEORY,
    "level_text": "Coq theorems about a pure functional model (Mesh/Pure.v) of modeling.Mesh and of every operation the "
                  "property names: the layout/connectivity operations keep the rows (all attribute values of a vertex) of "
                  "every surviving corner and change the index list only by the selection their contract names "
                  "(unweld, remove-unreferenced, remove-null-faces, flip, to-point-cloud, filters, crop, append, repeat, "
                  "split, weld, slice-by-plane); the single-attribute transforms (incl. scale-along-normal) change exactly one attribute by the stated pointwise map; "
                  "a result is a value: no later operation changes it (results_are_values). "
                  "Proved for every well-formed mesh, every predicate / rounding key / area test / transform parameter; "
                  "contract_sound: the boolean contract evaluated by the check holds of the model's result for all 22 "
                  "operations and all well-formed inputs, so a contract failure can only come from the implementation. "
                  "The model is tied to the Go code on every run: the implementation is executed on random well-formed "
                  "integer-valued meshes (histories of depth <= 4), and Coq evaluates (vm_compute) both model = "
                  "implementation and the boolean contract on the implementation's own output",
    "level_note": "Trusted: Coq kernel + vm_compute; hand-written model tied by differential correspondence only (generator "
                  "quality bounds it). LaplacianSmooth values are compared IN COQ (exact dyadic rationals, relative 1e-9) with the "
                  "rational model Mesh/Smooth.v for which laplacian_spec / laplacian_laws are proved; scale-along-normal is exact in Coq. Retained results are re-read "
                  "after later operations on the real Go values (CKeep: equality judged in Coq); meshes of thousands of vertices (block limits) are judged "
                  "harness-side by the disjoint-union law against the implementation's own results on the small tiles. Values of normalise / normals / "
                  "Laplacian-along-axis are float arithmetic: compared by the "
                  "harness with an independent float64 computation (1e-9); Coq checks their frame law. weld_spec is stated "
                  "for an arbitrary key function (covers every decimal place); the float rounding inside Vector3ToInt is "
                  "exercised only on integer coordinates",
    "technique": "Coq proof (induction over index lists / attribute maps / histories) + vm_compute correspondence and "
                 "contract check on the implementation's output",
    "design_ref": "DESIGN.md §3.2, §4 C03, §5 #2 #24 #25 #26",
    "n_quick": 1300, "n_thorough": 12000,
    "rule": "20 local operations on a ladder of vertex counts (one rung each at 2^10+1 .. 2^15+1; thorough also 2^16+1, 2^17+1): every operation at BOTH rungs >= 2^14 and one rotating lower rung per run, topologies and call variants rotating over the rungs, tail of the vertex array referenced or not (disjoint-union law); one history in 20 keeps the real mesh values of a branching history (3-7 operations, base with spare slice capacity) and re-reads every retained value after every later operation; 2 of 24 cases are needle/sliver RemoveNullFaces3D cases (aspect 1e3-1e9, scales 2^-40..2^20, thresholds decided exactly), 3 of 24 start from a surface with a definite neighbourhood structure (open fan, strip, grid, non-manifold edge, repeated-index, bow-tie, tetrahedron, line strip/loop/list) followed by Laplacian / Laplacian-along-axis / normals; float-valued operations and centre run at power-of-two scales 2^-40..2^20 two times in three (reference from the integer mesh, relative 1e-9); of the remaining histories 4 of 10 start from random well-formed meshes, 3 from structured meshes (unreferenced vertices none/front/middle/back/several x degenerate primitives none/some/all, well-separated integer coordinates of both signs), 1 from a generator triangle list with integer positions reduced by SetIndices to a subset of its primitives, 2 from vertices clustered in the same and adjacent rounding cells (widths 1, 10, 100; centres, just inside and on the cell boundaries) welded at the matching decimal place; structured sources mostly get the index-remapping operations; random well-formed meshes (6 topologies; 0-10 vertices; identity, permuted, repeated, sparse and empty index "
            "lists; 0-4 attributes of arity 1-4 incl. equal names in two arities and keys with empty arrays; duplicated "
            "vertex values; material ranges incl. empty and repeated ones), one of 29 operations per step (function, "
            "Transformer-struct and Mesh-method variants; ~1/10 with a wrong topology or missing attribute), histories of "
            "depth 1-4 feeding the implementation's own output back in, plus composition laws (flip twice, unweld twice, "
            "remove-unreferenced twice, weld after unweld); distinct by input; non-trivial = the operation succeeded on a "
            "mesh with at least one index and one attribute",
    "trusted": ["values produced by NormalizeAttribute3D/2D, SmoothNormals, SmoothNormalsImplicitWeld, FlatNormals, "
                "LaplacianSmoothAlongAxis are compared harness-side (float64, 1e-9) with an independent "
                "computation of the stated map; only their frame law is evaluated in Coq",
                "tile stream: the comparison of an operation on 10^3..10^4 vertices with the union of its results on the tiles is done by the harness",
                "material identity (*modeling.Material) is projected through Material.Name"],
    "modelled": ["Go map iteration order (attribute maps are modelled as one strictly sorted association list; "
                 "AttributeLength = length of its first entry, which on well-formed meshes equals every other)",
                 "modeling.Vector3ToInt / math.Round / math.Pow10 for integer coordinates: decimalPlace >= 0 is injective, "
                 "negative decimal places round half away from zero (checked by the correspondence)",
                 "geometry.AABB.Contains as closed box on integers; Tri.Area3D > minArea as 4*minArea^2 < |cross|^2",
                 "iter.ArrayIterator, vector2/3/4 arithmetic on integer-valued float64 (exact below 2^53; the harness keeps "
                 "magnitudes below 10^6 * 40)"],
}


def main(argv):
    return vlib.standard_check(CFG, argv)
