import vlib

CFG = {
    "id": "C07", "harness": "c07",
    "check_vo": "theories/Check/C07.vo", "prop_vo": "theories/Properties/C07.vo",
    "prop_file": "theories/Properties/C07.v",
    "theory_files": ["theories/Base/Bytes.v", "theories/Base/BytesProofs.v",
                     "theories/Formats/Stl.v", "theories/Formats/StlProofs.v"],
    "level_text": "Coq theorems about a byte-level model of stl.Write/Read/WriteMesh/ReadMesh (size law, both round-trip "
                  "directions, mesh-level gather, prefix rejection) for every triangle list and byte string; the model "
                  "is tied to the Go code on every run by evaluating it (vm_compute) on the implementation's inputs and "
                  "outputs and by a direct oracle on the implementation's output",
    "level_note": "Trusted: Coq kernel + vm_compute; hand-written model tied by differential correspondence only "
                  "(generator quality bounds it); float32 rounding and facet-normal arithmetic are Go-side (tolerance check)",
    "technique": "Coq proof (induction over record lists, byte-level round trip) + vm_compute correspondence check",
    "design_ref": "DESIGN.md §4 C07",
    "n_quick": 240, "n_thorough": 4000,
    "rule": "random triangle meshes (0-10 triangles, welded/unwelded, +-normals, +-Position, trailing partial "
            "triangle) through stl.WriteMesh/ReadMesh, and random well-formed STL byte strings (0-8 records, "
            "arbitrary float bit patterns incl. NaN/-0, zero and non-zero stored normals, 1/8 truncated) through "
            "stl.Read/Write/ReadMesh; distinct by input; non-trivial = at least one triangle record",
    "trusted": ["facet-normal *values* (normalised mean / geometric normal) are float arithmetic: compared by the "
                "harness against an independent float64 computation (1e-6), only their placement is in the model"],
    "modelled": ["encoding/binary little-endian layout of stl.Triangle (modelled byte for byte, checked by the "
                 "correspondence)", "IEEE rounding float64->float32 is performed by Go and passed to the model as bit patterns"],
}


def main(argv):
    return vlib.standard_check(CFG, argv)
