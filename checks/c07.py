import vlib

CFG = {
    "id": "C07", "harness": "c07",
    "check_vo": "theories/Formats/StlBigProofs.vo", "prop_vo": "theories/Properties/C07.vo",
    "prop_file": "theories/Properties/C07.v",
    "theory_files": ["theories/Base/Bytes.v", "theories/Base/BytesProofs.v",
                     "theories/Formats/Stl.v", "theories/Formats/StlProofs.v", "theories/Formats/StlBigProofs.v"],
    "level_text": "Coq theorems about a byte-level model of stl.Write/Read/WriteMesh/ReadMesh (size law, both round-trip "
                  "directions incl. inputs with trailing bytes, chunk-size independence of the chunked reader for every "
                  "chunk size, byte-exact record/normal placement, mesh-level gather, prefix rejection) for every triangle "
                  "list and byte string; the model is tied to the Go code on every run by evaluating it (vm_compute) on the "
                  "implementation's inputs and outputs and by a direct oracle on the implementation's output",
    "level_note": "Trusted: Coq kernel + vm_compute; hand-written model tied by differential correspondence only "
                  "(generator quality bounds it); float32 rounding and facet-normal arithmetic are Go-side (tolerance check); "
                  "outputs of the large cases (up to ~20000 records) are compared through two 63-bit polynomial fingerprints",
    "technique": "Coq proof (induction over record lists, byte-level round trip) + vm_compute correspondence check",
    "design_ref": "DESIGN.md §4 C07",
    "n_quick": 200, "n_thorough": 3000,
    "rule": "five streams. (0) a fixed header stream: 33 free-form 80-byte header texts (solid/SOLID with leading blanks, ASCII-STL prologue, endsolid, near misses, NULs, UTF-8, 8-bit blobs, all-0xFF/space/newline) on complete two-record and empty files through Read/Write/ReadMesh; random byte strings draw their header from random bytes, ASCII-STL vocabulary text or these templates. (1) n random small inputs: triangle meshes (0-10 triangles; welded, unwelded identity, as many "
            "indices as vertices but permuted or with repeats, as many vertices as triangles; +-normals incl. far from unit "
            "length, +-Position, trailing partial triangle) through stl.WriteMesh/ReadMesh, and well-formed STL byte strings "
            "(0-8 records, arbitrary float bit patterns incl. NaN/-0, zero and non-zero stored normals; 1/10 truncated, "
            "1/10 with trailing bytes) through stl.Read/Write/ReadMesh. (2) a fixed systematic stream of ~500 small meshes "
            "enumerating index-buffer shapes against the vertex count (len = #verts-1, #verts, #verts+1, 2x, 3x, 3x+1; "
            "identity, reversed, rotated, swapped winding, constant, strided, all permutations of three, degenerate "
            "triangles, unreferenced vertices), each with and without normals. (3) large synthetic files through "
            "Read/Write/ReadMesh with record counts at the reader's chunk size 4096, its multiples and powers of two, each "
            "-1/0/+1, plus random counts up to 13000 (thorough: all of them up to 20000), some cut short or with trailing "
            "bytes or with zero normals. (4) large synthetic meshes (same counts; unwelded identity, reversed, strided, "
            "as many vertices as triangles, welded over few vertices; +-normals) through WriteMesh/ReadMesh. Large cases "
            "carry (n, seed, shape) only: Coq and Go derive the same records and compare order-sensitive fingerprints. "
            "Distinct by input; non-trivial = at least one triangle record",
    "trusted": ["facet-normal *values* (normalised mean / geometric normal) are float arithmetic: compared by the "
                "harness against an independent float64 computation (1e-6), only their placement is in the model",
                "float words are compared modulo the quieting of signalling NaNs that encoding/binary performs (float32 -> "
                "float64 -> float32 on struct fields): notes/C07.md finding F1",
                "large cases: equality of outputs is judged through two 63-bit polynomial fingerprints (collision "
                "probability ~2^-60 per comparison); beyond 4200 records the model's answer is taken from the theorems "
                "stl_big_file_model / stl_prefix_rejected instead of executing it"],
    "modelled": ["encoding/binary little-endian layout of stl.Triangle (modelled byte for byte, checked by the "
                 "correspondence)", "IEEE rounding float64->float32 is performed by Go and passed to the model as bit patterns"],
}


def main(argv):
    return vlib.standard_check(CFG, argv)
