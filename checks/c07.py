import vlib

CFG = {
    "id": "C07", "harness": "c07",
    "check_vo": "theories/Formats/StlBigProofs.vo", "prop_vo": "theories/Properties/C07.vo",
    "prop_file": "theories/Properties/C07.v",
    "theory_files": ["theories/Base/Bytes.v", "theories/Base/BytesProofs.v",
                     "theories/Formats/Stl.v", "theories/Formats/StlProofs.v", "theories/Formats/StlBigProofs.v",
                     "theories/Formats/StlIo.v", "theories/Formats/StlIoProofs.v",
                     "theories/Formats/StlNormal.v", "theories/Formats/StlNormalProofs.v"],
    "level_text": "Coq theorems about a byte-level model of stl.Write/Read/WriteMesh/ReadMesh (size law, both round-trip "
                  "directions incl. inputs with trailing bytes, chunk-size independence of the chunked reader for every "
                  "chunk size, byte-exact record/normal placement, mesh-level gather, prefix rejection) for every triangle "
                  "list and byte string; of stl.Read on an io.Reader that delivers the data in pieces (same result for every "
                  "segmentation incl. empty reads; failing reader = cut file = rejected) and of a writer that fails after k "
                  "bytes (error reported iff the file does not fit); and of the facet-normal VALUE: an integer-arithmetic "
                  "decision procedure for 'these float32 words are the normalised sum of the corner normals', proved sound "
                  "over the real numbers ((1/2 + 2^-21) ulp) and invariant under the scale of the normals; the model is tied to the Go code on every run by evaluating it (vm_compute) on the "
                  "implementation's inputs and outputs and by a direct oracle on the implementation's output",
    "level_note": "Trusted: Coq kernel + vm_compute; hand-written model tied by differential correspondence only "
                  "(generator quality bounds it); float64->float32 rounding of positions is Go-side; the facet-normal value is decided "
                  "exactly in Coq whenever the vertex normals are integers times a common power of two below 2^50 (all "
                  "generator modes but one), otherwise by a 1e-6 tolerance check in the harness; the geometric normal ReadMesh "
                  "substitutes for zero records is a harness tolerance check; the two soundness theorems about real numbers "
                  "depend on the axioms of Coq's standard Reals library (listed by Print Assumptions); "
                  "outputs of the large cases (up to ~20000 records) are compared through two 63-bit polynomial fingerprints",
    "technique": "Coq proof (induction over record lists, byte-level round trip) + vm_compute correspondence check",
    "design_ref": "DESIGN.md §4 C07",
    "n_quick": 120, "n_thorough": 3000,
    "rule": "SIZE LADDER (wave 6): large meshes and large files walk 2^12, 2^13, 2^14, 2^15 triangles (quick: one mesh and one "
            "file per rung, at the rung or one above; thorough: -1/0/+1 on each, 2^16 and 2^17, multiples of NumCPU +-1 near 5000, "
            "20000, 40000), mesh shapes alternating unwelded identity / welded strip / unwelded reversed / welded with as many "
            "vertices as triangles, per-vertex distinct positions and normals, one reader kind per file rung, one rung through "
            "stl.Save/stl.Load, compared by fingerprint; this replaces the ad-hoc large counts of streams (3)/(4) below. "
            "Eight streams (5-7 new in round 4). (5) reader grid: synthetic files of 0, 2, 81, 83, 164 records (below and above "
            "bufio's 4096 bytes; thorough: 13 sizes up to 1000) and 4097+ records through every reader kind: iotest.HalfReader, "
            "OneByteReader, DataErrReader, Half+DataErr, random pieces incl. empty reads (with and without the final error "
            "delivered together with data), bufio of 16 bytes over pieces, io.Pipe, *os.File / stl.Load, iotest.TimeoutReader and "
            "a reader failing after k bytes (effective input = delivered prefix: must be rejected); every random byte-string "
            "case draws a reader kind as well. (6) writer grid: stl.Write / stl.WriteMesh into a writer accepting cap bytes "
            "then failing: every cap 0..85 on the empty file, boundaries of header/count/record on 1 record, random caps on "
            "2-7 records, caps around 84+50*4096 and the end on 4097 and 8193 records; stl.Save to /dev/full: an error must be "
            "reported iff cap < 84+50n. (7) stl.Save/stl.Load on files: 1/8 of the random meshes, every 7th shape, one large mesh. "
            "Mesh normals are drawn from: 2^-16 grid (a quarter far from unit length), unit normals quantised to 2^-18..2^-30, "
            "flat shading (one nearly-unit normal), small integers, common scale 2^+-20..60, axis-aligned incl. -0, full "
            "precision floats; large meshes carry a signed odd multiple of one axis per vertex so the facet normal changes "
            "from triangle to triangle without a power-of-two period. Stored normals of byte strings include components that "
            "cancel, tiny/subnormal lengths, mixed +-0, NaN/Inf among zeros. Then the five earlier streams: (0) a fixed header stream: 33 free-form 80-byte header texts (solid/SOLID with leading blanks, ASCII-STL prologue, endsolid, near misses, NULs, UTF-8, 8-bit blobs, all-0xFF/space/newline) on complete two-record and empty files through Read/Write/ReadMesh; random byte strings draw their header from random bytes, ASCII-STL vocabulary text or these templates. (1) n random small inputs: triangle meshes (0-10 triangles; welded, unwelded identity, as many "
            "indices as vertices but permuted or with repeats, as many vertices as triangles; +-normals incl. far from unit "
            "length, +-Position, trailing partial triangle) through stl.WriteMesh/ReadMesh, and well-formed STL byte strings "
            "(0-8 records, arbitrary float bit patterns incl. NaN/-0, zero and non-zero stored normals; 1/10 truncated, "
            "1/10 with trailing bytes) through stl.Read/Write/ReadMesh. (2) a fixed systematic stream of ~500 small meshes "
            "enumerating index-buffer shapes against the vertex count (len = #verts-1, #verts, #verts+1, 2x, 3x, 3x+1; "
            "identity, reversed, rotated, swapped winding, constant, strided, all permutations of three, degenerate "
            "triangles, unreferenced vertices), each with and without normals. (3) large synthetic files through "
            "Read/Write/ReadMesh with record counts at the reader's chunk size 4096, its multiples and powers of two, each "
            "-1/0/+1, plus random counts up to 13000 (thorough: all of them up to 20000), some cut short or with trailing "
            "bytes or with zero normals. (4) large synthetic meshes (same counts; unwelded identity, reversed, strided, "
            "as many vertices as triangles, welded over few vertices; +-normals) through WriteMesh/ReadMesh. Large cases "
            "carry (n, seed, shape) only: Coq and Go derive the same records and compare order-sensitive fingerprints. "
            "Distinct by input; non-trivial = at least one triangle record",
    "trusted": ["facet-normal value: decided in Coq by exact integer arithmetic (StlNormal.facet_ok: within (1/2 + 2^-21) ulp of "
                "s/|s|, theorem stl_facet_normal_value) for normals that are integers < 2^50 times a common power of two; "
                "the harness converts float64 normals to those integers (math.Frexp) and additionally keeps the 1e-6 "
                "comparison with an independent float64 computation for every mesh; the geometric normal on read-back of "
                "zero records is compared by the harness only (1e-6)",
                "reader/writer grid: readers are Go's testing/iotest wrappers, io.Pipe, os files and a seeded piece reader; "
                "for a failing reader the case is judged on the prefix it delivered (counted by a wrapper)",
                "float words are compared modulo the quieting of signalling NaNs that encoding/binary performs (float32 -> "
                "float64 -> float32 on struct fields): notes/C07.md finding F1",
                "large cases: equality of outputs is judged through two 63-bit polynomial fingerprints (collision "
                "probability ~2^-60 per comparison); beyond 4200 records the model's answer is taken from the theorems "
                "stl_big_file_model / stl_prefix_rejected instead of executing it"],
    "modelled": ["encoding/binary little-endian layout of stl.Triangle (modelled byte for byte, checked by the "
                 "correspondence)", "IEEE rounding float64->float32 is performed by Go and passed to the model as bit patterns"],
}


def main(argv):
    return vlib.standard_check(CFG, argv)
