import os

import vlib


def regen(rep):
    """Binding T: regenerate coq/gen/Sdf.v and SdfGeo.v from $VERIF_REPO with tools/go2coq (specs/c19.spec).
    A construct outside the translator's subset removes the generated file, so the proofs no longer build."""
    rc, out = vlib.sh([os.path.join(vlib.VERIF, "bin", "regen.sh"),
                       os.path.join(vlib.VERIF, "tools", "go2coq", "specs", "c19.spec")],
                      cwd=vlib.VERIF, timeout=300)
    # The Go build cache is shared with ~20 concurrent checks and trimmed by age while they run: a link step can find an
    # object file gone ("cannot open file ~/.cache/go-build/..-d").  Warm the harness build here, retrying on exactly that
    # error, so that standard_check's own build hits a consistent cache.  A harness that genuinely no longer compiles
    # against the repository fails here as well and is reported by standard_check as before.
    for _ in range(3):
        ok, _bin, log = vlib.harness_build("c19")
        if ok or "go-build" not in log:
            break
    return rc == 0, out


CFG = {
    "id": "C19", "harness": "c19",
    "check_vo": "theories/Check/C19.vo", "prop_vo": "theories/Properties/C19.vo",
    "prop_file": "theories/Properties/C19.v",
    "pre": regen,
    "theory_files": ["theories/Geom/SdfSpec.v", "theories/Geom/SdfBase.v", "theories/Geom/SdfProofs.v",
                     "theories/Geom/SdfCapsuleProofs.v", "theories/Geom/SdfBoxProofs.v",
                     "theories/Geom/SdfConeProofs.v", "theories/Geom/SdfScaleProofs.v",
                     "theories/Geom/SdfTotalProofs.v", "theories/Geom/SdfVLineProofs.v", "theories/Geom/SdfTreeProofs.v"],
    "level_text": "Coq theorems over the real numbers about the Gallina definitions that tools/go2coq generates from "
                  "math/sdf/*.go and geometry.Line3D.ClosestPointOnLine on every run: sign, exact Euclidean distance and "
                  "the 1-Lipschitz bound for sphere, plane, capsule (also a = b) and box; rounded box and rounded cylinder "
                  "sign + 1-Lipschitz; rounded cone as the minimum over its swept spheres (sign, exactness, 1-Lipschitz) for "
                  "ALL parameters (nested end spheres and a = b included); VarryingThicknessLine = Union of the rounded cones "
                  "between consecutive points (sign, 1-Lipschitz, panics iff fewer than two points); Union/Intersect/Subtract "
                  "as set algebra for arbitrary operands (binary and n-ary, negative and positive side) and closure of "
                  "1-Lipschitz functions; Translate f t p = f (p - t); positive homogeneity of every primitive; and for whole "
                  "expressions over all twelve constructors: tree_lipschitz and tree_sign (negative / positive set = the "
                  "set-algebra expression); two refuted witnesses (plane with a non-unit normal is not exact; Subtract is 0, "
                  "not negative, on the subtrahend's boundary)",
    "level_note": "Statements are over R (no IEEE rounding): the float implementation is tied by translation "
                  "(regenerated and re-proved from the Go source on every run, validated by evaluating the generated "
                  "definitions over Q against Go's values) plus numeric sampling of the theorem statements on the "
                  "implementation. Print Assumptions lists only the axioms of Coq's classical reals "
                  "(sig_forall_dec, sig_not_dec, functional_extensionality_dep). Line(a,a,r) and RoundedCone with one end "
                  "sphere inside the other are inside the theorems since round 4 (the *_total statements); their streams "
                  "stay separately counted. Not modelled: the Line3D methods no sdf constructor calls",
    "technique": "Coq proof over Reals of translated (go2coq) definitions + vm_compute validation of the translation "
                 "over Q + numeric sampling of the statements on the implementation",
    "design_ref": "DESIGN.md §4 C19, §2.3, §3.1",
    "n_quick": 220, "n_thorough": 2500,
    "rule": "exact stream (dyadic shapes/points, perfect-square roots: generated definitions over Q must equal Go exactly), "
            "random primitives and operator trees (depth <= 2, 1-5 operands) at points around the shape, projected "
            "onto the surface (offsets 0..0.3 incl. 1e-12, 3e-8, 1e-7), on axes, beyond caps, on the rounded cone's branch "
            "boundaries: Q model within 1e-9, sign vs closed-form membership (Coq), independent float reference of the "
            "whole tree (cone: golden-section search over the swept spheres; operators recursively from the leaves), "
            "operators bit-exact vs pointwise min/max of operand values, translate vs f(p-t); REGION stream: every "
            "Voronoi region of every primitive by construction (box: 3 interior cells, 3 face, 3 edge, corner, centre; "
            "cylinder: interior by side/cap, side, cap, rim, axis; capsule/cone: cap a, lateral, cap b x inside/outside, "
            "axis, beyond the axis, next to the caps) and pairs straddling every region boundary (2 eps apart, eps 1e-9..1e-3), "
            "each also at a micro/macro scale (2^-40..2^12, decimal 1e-9..1e4; homogeneity, reference and Lipschitz relative "
            "to the scale); translate offsets with all components below 1e-8 but not all zero, chains of up to 60 tiny "
            "translations, operator chains of 3..10 steps, n-ary operators of 4..33 (thorough 40) operands with the decisive "
            "operand rotated through every index; VarryingThicknessLine of 2..7 points (nested / repeated points); "
            "constructors on 0..3 operands (declared panics == generated _panics); every evaluated field re-evaluated "
            "after neighbouring points and against a freshly built field (bit for bit); Lipschitz on explicit pairs "
            "(Coq, steps 1e-9..5) and dense harness-side batches; exactness vs a rigorous branch-and-bound enclosure of the "
            "distance to the surface; constructor side effects: Union/Intersect/Subtract/Translate called in every order on "
            "ONE shared caller-owned operand slice of 2-6 shapes, then every constructed field and every operand "
            "re-evaluated bit for bit; distinct by input; non-trivial = every case",
    "trusted": ["tools/go2coq (translator, ~3900 lines of Go): validated on every run by vm_compute of the generated "
                "definitions over Q against the implementation's values (exact on the dyadic stream, 1e-9 otherwise)",
                "coq/theories/Geom/Vec.v prelude: transcription of github.com/EliCDavis/vector v1.8.0 methods",
                "Reals axioms: ClassicalDedekindReals.sig_forall_dec, sig_not_dec, FunctionalExtensionality.functional_extensionality_dep"],
    "modelled": ["float64 arithmetic is modelled by exact real / rational arithmetic; rounding is covered by tolerances "
                 "(1e-9 relative) in the sampling, not by proof",
                 "Go panics (Union/Intersect of no fields, VarryingThicknessLine of fewer than two points, nil field) are outside the total model: <name>_panics = false is a hypothesis; the panics stream checks that the declared panics occur exactly where the generated _panics companions say"],
}


def main(argv):
    return vlib.standard_check(CFG, argv)
