import os

import vlib


def regen(rep):
    """Binding T: regenerate coq/gen/Sdf.v and SdfGeo.v from $VERIF_REPO with tools/go2coq (specs/c19.spec).
    A construct outside the translator's subset removes the generated file, so the proofs no longer build."""
    rc, out = vlib.sh([os.path.join(vlib.VERIF, "bin", "regen.sh"),
                       os.path.join(vlib.VERIF, "tools", "go2coq", "specs", "c19.spec")],
                      cwd=vlib.VERIF, timeout=300)
    return rc == 0, out


CFG = {
    "id": "C19", "harness": "c19",
    "check_vo": "theories/Check/C19.vo", "prop_vo": "theories/Properties/C19.vo",
    "prop_file": "theories/Properties/C19.v",
    "pre": regen,
    "theory_files": ["theories/Geom/SdfSpec.v", "theories/Geom/SdfBase.v", "theories/Geom/SdfProofs.v",
                     "theories/Geom/SdfCapsuleProofs.v", "theories/Geom/SdfBoxProofs.v",
                     "theories/Geom/SdfConeProofs.v", "theories/Geom/SdfScaleProofs.v",
                     "theories/Geom/SdfTotalProofs.v", "theories/Geom/SdfVLineProofs.v", "theories/Geom/SdfTreeProofs.v"],
    "level_text": "Coq theorems over the real numbers about the Gallina definitions that tools/go2coq generates from "
                  "math/sdf/*.go and geometry.Line3D.ClosestPointOnLine on every run: sign, exact Euclidean distance and "
                  "the 1-Lipschitz bound for sphere, plane, capsule and box; rounded box and rounded cylinder sign + "
                  "1-Lipschitz; rounded cone as the minimum over its swept spheres (sign, exactness, 1-Lipschitz) under "
                  "a <> b and |b-a|^2 > (r1-r2)^2; Union/Intersect/Subtract as set algebra for arbitrary operands "
                  "(binary and n-ary) and closure of 1-Lipschitz functions; Translate f t p = f (p - t)",
    "level_note": "Statements are over R (no IEEE rounding): the float implementation is tied by translation "
                  "(regenerated and re-proved from the Go source on every run, validated by evaluating the generated "
                  "definitions over Q against Go's values) plus numeric sampling of the theorem statements on the "
                  "implementation. Print Assumptions lists only the axioms of Coq's classical reals "
                  "(sig_forall_dec, sig_not_dec, functional_extensionality_dep). Degenerate parameters "
                  "(Line(a,a,r); RoundedCone with one end sphere inside the other) are outside the theorems' "
                  "hypotheses and are reported as separate streams",
    "technique": "Coq proof over Reals of translated (go2coq) definitions + vm_compute validation of the translation "
                 "over Q + numeric sampling of the statements on the implementation",
    "design_ref": "DESIGN.md §4 C19, §2.3, §3.1",
    "n_quick": 220, "n_thorough": 2500,
    "rule": "exact stream (dyadic shapes/points, perfect-square roots: generated definitions over Q must equal Go exactly), "
            "random primitives and operator trees (depth <= 2, 1-5 operands) at points around the shape, projected "
            "onto the surface (offsets 0..0.3 incl. 1e-12), on axes, beyond caps, on the rounded cone's branch "
            "boundaries: Q model within 1e-9, sign vs closed-form membership (Coq), independent float reference "
            "(cone: golden-section search over the swept spheres), operators vs pointwise min/max of operand values, "
            "translate vs f(p-t); Lipschitz on explicit pairs (Coq) and dense harness-side batches (steps 1e-4..5); "
            "exactness vs a rigorous branch-and-bound enclosure of the distance to the surface; constructor side effects: "
            "Union/Intersect/Subtract/Translate called in every order (steps may repeat) on ONE shared caller-owned operand "
            "slice of 2-6 shapes, then every constructed field and every operand re-evaluated bit for bit against min/max of "
            "separately built originals; distinct by input; non-trivial = every case",
    "trusted": ["tools/go2coq (translator, ~2600 lines of Go): validated on every run by vm_compute of the generated "
                "definitions over Q against the implementation's values (exact on the dyadic stream, 1e-9 otherwise)",
                "coq/theories/Geom/Vec.v prelude: transcription of github.com/EliCDavis/vector v1.8.0 methods",
                "Reals axioms: ClassicalDedekindReals.sig_forall_dec, sig_not_dec, FunctionalExtensionality.functional_extensionality_dep"],
    "modelled": ["float64 arithmetic is modelled by exact real / rational arithmetic; rounding is covered by tolerances "
                 "(1e-9 relative) in the sampling, not by proof",
                 "Go panics (Union/Intersect of no fields, nil field) are outside the total model: <name>_panics = false is a hypothesis"],
}


def main(argv):
    return vlib.standard_check(CFG, argv)
