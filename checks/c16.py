import os

import vlib

CFG = {
    "id": "C16", "harness": "c16",
    "check_vo": "theories/Check/C16.vo", "prop_vo": "theories/Properties/C16.vo",
    "prop_file": "theories/Properties/C16.v",
    "theory_files": ["theories/Trees/Octree.v", "theories/Trees/Bvh.v", "theories/Trees/OctreeProofs.v",
                     "theories/Trees/BvhProofs.v", "theories/Trees/ElemProofs.v", "theories/Trees/CheckProofs.v",
                     "theories/Trees/TriProofs.v", "theories/Trees/MeshProofs.v", "theories/Trees/SphereProofs.v"],
    "level_text": "Coq theorems about an executable model of trees/octree.go (newOctree, the five queries) and of "
                  "rendering/bvh.go (BVHNode.Hit) / hit.go (HitList.Hit): for every element list, every maximum depth and "
                  "every query the tree built by the model satisfies the containment invariant, and every tree satisfying "
                  "it answers ElementsContainingPoint / ElementsWithinRange / ElementsIntersectingRay / ClosestPoint exactly "
                  "like the exhaustive scan (same identities, minimal distance, the returned index is the element that "
                  "produced the point); BVH nearest hit equals the linear list's.  The model is tied to the Go code on "
                  "every run: the implementation's dumped tree is tested against the invariant, the model's queries are evaluated on that tree and compared with the implementation's answers by vm_compute, "
                  "and a direct oracle (exhaustive scan over the implementation's own per-element answers) judges the output",
    "level_note": "Trusted: Coq kernel + vm_compute; hand-written model tied by differential correspondence only (generator "
                  "quality bounds it). Coordinates are exact (quarter grid, integers x4); the elements' own ClosestPoint / "
                  "ray-triangle arithmetic is float64 and enters as data (its one assumption - the closest point lies in the "
                  "element's box - is re-checked per case)",
    "technique": "Coq proof (induction over depth / tree / work list; slab-test monotonicity over Q) + vm_compute correspondence check",
    "design_ref": "DESIGN.md §4 C16, §5 entries 17, 28",
    # -bvhmin: BVH rays with a non-zero lower bound (fix b2fa3f0 landed).  Streams that show findings not yet
    # landed / listed are off by default: -rawsphere (fixes/c16-sphere-bounding-box, FailKey
    # bvh:sphere-box-half-size), -emptystrip (fixes/c16-empty-line-strip-octree, FailKey
    # oct:index-less-line-strip-panics); C16_EXTRA="-rawsphere -emptystrip" switches them on for one run.
    "extra_args": ["-bvhmin"] + os.environ.get("C16_EXTRA", "").split(),
    "n_quick": 150, "n_thorough": 2000,
    "rule": "element sets of points / line strips / triangles (Mesh.OctTree, OctTreeDepth) and plain boxes (trees.NewOctree…) on "
            "the integer grid: layouts uniform-small, uniform-wide, clustered, coincident, lattice (elements on the cells' "
            "centre planes), planar, collinear, outlier; 0..60 elements (thorough: ..2000), maximum depth 0..6 and automatic; "
            "per set 3 queries of each kind: containing point, within radius (incl. exact boundary, 0, negative), ray "
            "(axis-parallel with zero components, one zero component, diagonal, general, tiny/subnormal components; zero components of either sign in every pattern, also derived by Flip/Scale(-1)/Zero.Sub/Reflect; lower bound negative / 0 / positive; "
            "upper bound cutting the set), traversal with a shrinking upper bound, closest point (vertices, cell centres, "
            "midpoints = ties, faces, outside, points on edge extensions of triangles); every 4th case a BVH over a generated "
            "triangle mesh (random split-axis seed) with one ray, BVHNode.Hit vs HitList.Hit vs exhaustive minimum; "
            "distinct by input; non-trivial = at least two elements and at least one evaluated query",
    "trusted": ["the elements' own geometry (scopedLine/scopedTri.ClosestPoint, rayIntersectsTri) is float arithmetic executed by "
                "Go; its results enter the cases as exact dyadic numbers and the exhaustive scan is computed on the same numbers",
                "queries whose per-element distances are NaN (zero-area triangle / zero-length segment) or whose element point "
                "leaves the element's box by rounding noise (<= 1e-9 relative) are counted and skipped for ClosestPoint only"],
    "modelled": ["math.Sqrt is monotone (Distance comparisons are modelled on squared distances; exact on the harness' grid)",
                 "IntersectsRayInRange is modelled over Q with the three-way case dir = 0 / > 0 / < 0 for 1/dir = +-Inf; Go's "
                 "rounding of the slab parameters is below the kEpsilon inflation on the generated inputs",
                 "container/heap is modelled as a sorted work list: ClosestPoint is compared up to ties"],
}


def main(argv):
    return vlib.standard_check(CFG, argv)
