import vlib

CFG = {
    "id": "C16", "harness": "c16",
    "check_vo": "theories/Check/C16.vo", "prop_vo": "theories/Properties/C16.vo",
    "prop_file": "theories/Properties/C16.v",
    "theory_files": ["theories/Trees/Octree.v", "theories/Trees/Bvh.v", "theories/Trees/OctreeProofs.v",
                     "theories/Trees/BvhProofs.v", "theories/Trees/ElemProofs.v", "theories/Trees/CheckProofs.v",
                     "theories/Trees/TriProofs.v", "theories/Trees/MeshProofs.v", "theories/Trees/SphereProofs.v"],
    "level_text": "Coq theorems about an executable model of trees/octree.go (newOctree, the five queries), of the mesh-level "
                  "entry points Mesh.OctTree / OctTreeDepth / OctTreeWithAttributeAndDepth (element i = mesh primitive i), of the "
                  "element kinds' exact geometry (point, segment, triangle: rational models of ClosestPointOnLine and "
                  "scopedTri.ClosestPoint; boxes; spheres' boxes) and of rendering/bvh.go (NewBVHTree, BVHNode.Hit) / hit.go "
                  "(HitList.Hit): for every element list, every maximum depth and every query the tree built by the model "
                  "satisfies the containment invariant, and every tree satisfying it answers ElementsContainingPoint / "
                  "ElementsWithinRange / ElementsIntersectingRay / ClosestPoint exactly like the exhaustive scan (same "
                  "identities = mesh primitive indices, minimal distance, the returned index is the element that produced the "
                  "point) - ClosestPoint without any hypothesis on the elements for points, boxes, segments and triangles of "
                  "non-zero area; BVHNode.Hit on every tree NewBVHTree can build = HitList.Hit = the exhaustive nearest hit.  "
                  "The model is tied to the Go code on every run: the implementation's dumped tree is tested against the "
                  "invariant, the model's queries are evaluated on that tree and compared with the implementation's answers by "
                  "vm_compute, element boxes are recomputed in Coq from the mesh's vertices and indices, Go's segment / "
                  "triangle closest points are compared with the exact rational models, and a direct oracle (exhaustive scan "
                  "over the implementation's own per-element answers) judges the output",
    "level_note": "Trusted: Coq kernel + vm_compute; hand-written model tied by differential correspondence only (generator "
                  "quality bounds it). Coordinates are exact (quarter grid, integers x4); the elements' own ClosestPoint / "
                  "ray-triangle / ray-sphere arithmetic is float64 and enters as data (closest points of segments and triangles "
                  "are compared with the exact models up to 1e-12; the one assumption the tree proofs need - the point lies in "
                  "the element's box - is proved for the exact models and re-checked per case on Go's numbers)",
    "technique": "Coq proof (induction over depth / tree / work list; slab-test monotonicity over Q) + vm_compute correspondence check",
    "design_ref": "DESIGN.md §4 C16, §5 entries 17, 28",
    # -bvhmin: BVH rays with a non-zero lower bound (fix b2fa3f0 landed).  The sphere (f622dca) and index-less line
    # strip (468e9a1) streams are unconditional since those fixes landed.
    "extra_args": ["-bvhmin"],
    "n_quick": 150, "n_thorough": 1400,
    "rule": "element sets of points / line strips / triangles (Mesh.OctTree, OctTreeDepth, and OctTreeWithAttributeAndDepth on a "
            "non-position attribute with decoy positions) and plain boxes (trees.NewOctree...) on the integer grid: layouts "
            "uniform-small, uniform-wide, clustered, coincident, lattice (elements on the cells' centre planes), planar, "
            "collinear, outlier; triangle sets with triangles that name a vertex twice followed by proper ones; 0..60 elements "
            "(thorough: ..2000), maximum depth 0..6 and automatic; per set the mesh itself (element i = primitive i, boxes "
            "recomputed in Coq) and 3 queries of each kind, placed relative to the element layout or to the cells of the tree "
            "the implementation builds (corners, face / edge midpoints, quarter points, just outside): containing point, within "
            "radius (incl. exact boundary, 0, negative, and radii that just reach a cell's Min and Max corners from a point off "
            "their diagonal), ray (axis-parallel with zero components, one zero component, diagonal, general, tiny/subnormal "
            "components; zero components of either sign in every pattern, also derived by Flip/Scale(-1)/Zero.Sub/Reflect; lower "
            "bound negative / 0 / positive; upper bound cutting the set), traversal with a shrinking upper bound, closest point "
            "(vertices, cell centres, midpoints = ties, faces, outside, points on edge extensions of triangles) with up to 3 "
            "elements' own closest points compared with the exact model; every 4th case a BVH with one ray: triangle meshes "
            "(NewBVHFromMesh), spheres (static or moving over a time window, ray time at both ends and in between) and mixed "
            "sets through NewBVHTree on a sub-range [start,end) of a longer slice, lower bound 0 / positive / negative, rays "
            "aimed at triangle interiors, sphere centres / insides / silhouettes / just outside; BVHNode.Hit vs HitList.Hit vs "
            "exhaustive minimum vs rendering.Tree.Hit (octree over the boxes) vs rendering.Mesh.Hit (narrowing traversal); "
            "a size ladder judged exactly in Go (2^10+-1, 2^11+-1, 2^12+1 .. 2^15+1 elements, thorough also 2^16+1 and NumCPU "
            "multiples +-1): per rung two octree sets (kinds / depth / attribute rotate; Mesh.OctTree... and trees.NewOctree...) "
            "and NewBVHTree over that many spheres - invariant on the dumped tree, queries at the last / first / middle "
            "elements and the origin vs the exhaustive scan; "
            "distinct by input; non-trivial = at least two elements and at least one evaluated query",
    "trusted": ["the elements' own geometry (scopedLine/scopedTri.ClosestPoint, rayIntersectsTri, Sphere.Hit) is float arithmetic "
                "executed by Go; its results enter the cases as exact dyadic numbers and the exhaustive scan is computed on the same "
                "numbers; segment / triangle closest points are additionally compared with the exact rational models (tolerance 1e-12)",
                "sphere members of a BVH are rendering.Sphere values with their own BoundingBox (as wide as the sphere since f622dca)",
                "queries whose per-element distances are NaN (zero-area triangle / zero-length segment) or whose element point "
                "leaves the element's box by rounding noise (<= 1e-9 relative) are counted and skipped for ClosestPoint only"],
    "modelled": ["math.Sqrt is monotone (Distance comparisons are modelled on squared distances; exact on the harness' grid)",
                 "IntersectsRayInRange is modelled over Q with the three-way case dir = 0 / > 0 / < 0 for 1/dir = +-Inf; Go's "
                 "rounding of the slab parameters is below the kEpsilon inflation on the generated inputs",
                 "container/heap is modelled as a sorted work list: ClosestPoint is compared up to ties"],
}


def main(argv):
    return vlib.standard_check(CFG, argv)
