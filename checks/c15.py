import vlib

CFG = {
    "id": "C15", "harness": "c15",
    "check_vo": "theories/Check/C15.vo", "prop_vo": "theories/Properties/C15.vo",
    "prop_file": "theories/Properties/C15.v",
    "theory_files": ["theories/Base/Bytes.v", "theories/Base/BytesProofs.v",
                     "theories/Formats/Splat.v", "theories/Formats/SplatProofs.v",
                     "theories/Formats/Spz.v", "theories/Formats/SpzProofs.v", "theories/Formats/SplatReal.v", "theories/Formats/SplatPlyLink.v",
                     "theories/Formats/SplatInterval.v", "theories/Formats/SplatExtra.v", "theories/Formats/SpzExtra.v",
                     "theories/Formats/SpzExtraProofs.v"],
    "level_text": "Coq theorems about byte-level models of splat.Write/Read (32-byte records, exact rational "
                  "quantisers/dequantisers, count law, round trip within one 8-bit step, prefix behaviour, the pinned "
                  "rotation wrap refuted) and of spz.Read (header, planar arrays, 24-bit sign extension, half floats, "
                  "SH interleaving) against a reference encoder, for every cloud / header / byte pattern; the models "
                  "are tied to the Go code on every run by evaluating them (vm_compute, exact rational arithmetic on "
                  "the dyadic value of every float64) on the implementation's inputs and outputs, plus a direct "
                  "oracle on the implementation's output; round 4: the scale clause for Flocq's binary32 rounding with no "
                  "hypothesis on the rounding (|ln(round32(exp s)) - s| <= 2^-23 for -87 <= s <= 88, libm error as an explicit "
                  "term), the opacity clause for the real sigmoid / logit, unit norm of SPZ rotations with the real sqrt, "
                  "spz.ReadHeader, splat.Write's guards, the empty SplatPly cloud",
    "level_note": "Trusted: Coq kernel + vm_compute; hand-written models tied by differential correspondence only "
                  "(generator quality bounds it); exp/log/sigmoid/sqrt are Go float functions: Section variables in the "
                  "theorems, tolerance checks harness-side (sqrt is checked in Coq through w*w); gzip is Go's "
                  "compress/gzip; SplatPly: the whole-file round trip (header text, reader construction, vertex block) is "
                  "proved on C04's writer model and C08's reader model (Formats/SplatPlyLink.v imports them read-only); "
                  "those two models are tied to the Go code by the C04/C08 checks and here per case; one theorem (splat_scale_real, the exp/log "
                  "scale clause) is stated over Coq's Reals and therefore shows the standard library's real-number "
                  "axioms under Print Assumptions; the round-4 theorems of module RealFloat are over Reals as well, and two of "
                  "them (splat_scale_float32, splat_numeric_facts) have numeric side conditions closed by the Interval tactic "
                  "(software floats, i_prec 64) and therefore also show the standard library's Uint63.*_spec axioms of the "
                  "kernel's machine integers; every other theorem is closed under the global context. Harness-side metamorphic "
                  "checks (same result through six io.Reader shapes and four gzip levels, results unchanged by later calls, input "
                  "mesh unchanged, second write identical, error on a failing destination, concurrent = sequential) compare the "
                  "implementation with itself and are not modelled",
    "technique": "Coq proof (induction over record lists; Q/Z inequalities for the quantisers; nth/flat_map layout "
                 "lemmas for the planar arrays; Flocq relative-error theorem + Interval for the binary32 scale clause) + "
                 "vm_compute correspondence check",
    "design_ref": "DESIGN.md §4 C15, §5 entry 16",
    "n_quick": 256, "coqchk_timeout": 1500,
    "coqchk_modules": ["PF.Formats.SplatProofs", "PF.Formats.SpzProofs", "PF.Formats.SpzExtraProofs", "PF.Formats.SplatExtra", "PF.Formats.SplatPlyLink"],
    "coqchk_note": "everything the discrete (Q/Z/byte-level) theorems of C15 depend on; the statement file and Formats/SplatInterval.v (Flocq + Coquelicot + Interval, real-number theorems) are NOT re-checked by coqchk: that run does not finish within an hour even on an idle machine - those theorems rest on coqc alone",
    "n_thorough": 6000,
    "rule": "random splat clouds (0-12 splats; rotations incl. identity, components exactly +-1, k/128, k/1024, "
            "outside [-1,1]; FDC beyond the displayable range and at byte/clamp boundaries; opacities up to +-800) "
            "through splat.Write/Read; arbitrary and truncated .splat byte strings through splat.Read; SPZ streams "
            "from an independent reference encoder (versions 1-2, SH degree 0-3, fractional bits 0-23 and corner "
            "counts up to 255, per version 256 single-point files in which every byte field takes every value 0..255 (SH "
            "bytes: over the two versions together; degrees 0-3 interleaved), a fractional-bits x degree grid of two-point files, 24-bit "
            "corner patterns incl. the bit-23 sign boundary and the bit-22 boundary, half-float patterns (all 65536 "
            "in the thorough tier), 0/1/many points, invalid headers) gzip-ed by compress/gzip into "
            "spz.Read; truncated/trailing/hostile-count SPZ streams; splat clouds with subsets of the 62 SplatPly "
            "properties through ply.SplatPly.Write + ply.ReadMesh; large synthetic clouds (4095, 4096, 4097, 8193, 9000, 65537 points: around powers of two and block "
            "sizes) through every codec (.splat write+read, SPZ every version x degree, SplatPly write+ReadMesh), records "
            "derived from (n, seed) on both sides, compared by count and order-sensitive 63-bit fingerprints of per-field "
            "codes; round 4: SPZ rotation triples over the corner product {0,1,127,128,129,254,255}^3 and next to the unit "
            "sphere on both sides, flags/reserved grid per version x degree, 12 sizes at which the uncompressed stream meets "
            "the inflater's 32 KiB window and its multiples, gzip level chosen by stream length; spz.ReadHeader on valid / "
            "invalid / short headers; spz.Load through a temp file; every decode repeated through six reader shapes (1, 7, 31 "
            "bytes per Read, growing chunks, data together with io.EOF); conversions spz>splat, spz>ply, splat>ply, ply>splat "
            "on the mesh the first codec's reader returned; splat.Write on meshes of other topologies / with missing "
            "attributes / with foreign attributes; float32 overflow, subnormal and underflow positions; failing destination "
            "writers; 18 concurrent codec calls; distinct by input; non-trivial = at least one splat",
    "trusted": ["math.Exp/math.Log/sigmoid are float functions: the scale word and the opacity byte's pre-image are "
                "computed by Go and passed to the model; scale and opacity round trips are tolerance checks in the "
                "harness (2^-23 absolute on the log-scale, 1/255 in the sigmoid domain)",
                "compress/gzip (the harness gzips the reference stream; the model starts after decompression)",
                "Go's float32() conversion is IEEE round-to-nearest-even binary32 (= Flocq's round radix2 (FLT_exp (-149) 24) "
                "ZnearestE below the overflow threshold) and math.Exp / math.Log meet a relative / absolute error bound: "
                "hypotheses e, e' of splat_scale_float32's second conjunct",
                "io.ReadFull, bufio, bitlib.Writer error latching: not modelled, exercised through reader shapes and failing "
                "writers"],
    "modelled": ["splat.Write's checks before the record loop (attribute length 0, topology, five required attributes: "
                 "Formats/SplatExtra.v write_guard), spz.ReadHeader (Formats/SpzExtra.v read_header)",
                 "little-endian float32/uint32 words, bitlib.Writer.Float32/Byte, io.ReadFull, binary.Read of the SPZ "
                 "header (modelled byte for byte, checked by the correspondence)",
                 "IEEE rounding float64->float32 is performed by Go and passed to the model as bit patterns",
                 "float64 evaluation of c*SH_C0+0.5, alpha*255, r*128+128 may differ from the exact rational by "
                 "(|x|+2)*2^-53: the correspondence accepts the byte of any value within (|x|+1)*2^-45 of the input "
                 "(zero margin for short dyadic rotations, where Go is exact)"],
}


def main(argv):
    return vlib.standard_check(CFG, argv)
