import vlib

CFG = {
    "id": "C20", "harness": "c20",
    "check_vo": "theories/Check/C20.vo", "prop_vo": "theories/Properties/C20.vo",
    "prop_file": "theories/Properties/C20.v",
    "theory_files": ["theories/Tri/Delaunay.v", "theories/Tri/DelaunayProofs.v",
                     "theories/Tri/BowyerWatson.v", "theories/Tri/BowyerWatsonProofs.v",
                     "theories/Tri/DelaunayChar.v", "theories/Tri/BowyerWatsonComplete.v"],
    "level_text": "Coq theorems about an exact-rational model of triangulation.BowyerWatson. bw_delaunay: for three or more "
                  "points with (input ++ super triangle) in strong general position (no 3 collinear, no 4 concyclic; "
                  "decidable, gp_strong_decidable) the model's output meets the whole statement - only input indices, "
                  "one winding with non-zero area, pairwise disjoint interiors, no input point strictly inside a "
                  "circumcircle - under every iteration order of the Go map (bw_delaunay_any_map_order); the run and the "
                  "output are characterised exactly (bw_states_exact: the map always holds THE Delaunay triangulation of "
                  "the inserted points; bw_output_exact: a triangle is returned iff its circle is also empty of the three "
                  "super-triangle vertices - the known finding with both directions); edge closure at every step "
                  "(bw_edge_closure, the former open hypothesis M1) and non-overlap (M2) are proved. Also: vertex identity, "
                  "winding under plain general position, the repaired super triangle strictly contains every input at all "
                  "scales while the pinned one does not, the layer lemmas (pencil of circles, star-shaped cavity), a "
                  "Delaunay checker proved sound AND complete for the four conjuncts. The checker is run (vm_compute) on "
                  "every output of the Go code; the model is tied to the Go code by requiring the same triangle set on "
                  "exact / sign-faithful inputs, the same super triangle, the same answers of the three exported predicates "
                  "(InsideCircumcircle, CounterClockwise, Edges) incl. their zero sets; gp_strongb and closed_runb are "
                  "evaluated per model-compared input",
    "level_note": "Trusted: Coq kernel + vm_compute; hand-written model tied by differential correspondence only (go2coq "
                  "cannot translate methods of the array type Triangle); bw_delaunay needs general position INCLUDING the "
                  "super-triangle vertices (inputs where an input point is collinear / concyclic with super vertices are "
                  "covered only by bw_delaunay_partial + closed_runb per input); coverage of the convex hull fails on "
                  "/repo HEAD (known finding, bw_coverage_refuted, bw_output_exact); float64 rounding is outside the model",
    "technique": "Coq proof (reflection of a bounding-box / separating-edge / Fourier-Motzkin and in-circle checker over Q; "
                 "invariant 'the state is the Delaunay triangulation of the inserted points' by induction over the insertion "
                 "sequence; pencil-of-circles and radical-axis identities by ring; extremal choice over finite lists) + "
                 "vm_compute correspondence check",
    "design_ref": "DESIGN.md §4 C20",
    "n_quick": 96, "n_thorough": 600,
    "rule": "15 fixed corner cases (the repaired defect's input at 2^-7 and 2^-20, the known-finding example, a sparse "
            "sliver that leaves input points without triangles, a 24-spoke wheel, a flat triangle followed / preceded by a "
            "far point inside its circumcircle, a two-vertex hull pocket) + 24+n/4 direct calls of the exported predicates "
            "(fourth point exactly on the circle, collinear / repeated corners, both windings, flat triangle and far point, "
            "offsets to 2^40) + point sets in general position (no 3 collinear, no 4 "
            "concyclic: exact integer rejection): (i) integer grids of extent <= 127 (<= 254 for the large class) where "
            "every float64 operation of the implementation incl. the super-triangle tests is exact, 3-40 points "
            "model-compared, 1/16 of the cases 41-~125 points checker only, uniform / clustered / flat-hull / near-line / "
            "strip / ring; (ii) 1/8 sparse thin near-collinear slivers (4-12 points, 11 directions, length 2^5..2^16 steps, "
            "sideways spread 1-40 steps: aspect ratios down to 1/65536) admitted by an exact shadow run that requires every "
            "float64 predicate to have the exact sign with a 2^-40 relative margin; (iii) 1/8 wheels: 8-64 rim points in convex position (perturbed circle / "
            "ellipse / parabola arc, radius 150-3900, optional nested ring) plus 1-3 hub points near the centre inserted "
            "last, first or in the middle, admitted by the same faithful-run filter (cavities of up to ~60 triangles; the "
            "largest cavity per case is recorded as max-cavity:*); (v) 1/16 far-reach inputs: a run of 3-6 nearly collinear "
            "points (length 64-512 steps, spread 1-3) and 1-3 points 4..L^2/4h steps off the run, accepted only when the exact "
            "replay removes a triangle lying 4/8/16/32/64 of its own perimeters away from the inserted point "
            "(far-bad-triangle:*); (vi) 1/16 hull pockets: a long hull edge (2^8-2^12 steps, 11 directions) with 2-5 points "
            "1-4 steps inside it plus 2-5 body points (several hull triangles dropped together: "
            "known:two-or-more-triangles-dropped); (iv) 1/16 grid inputs with 1-3 exactly "
            "repeated points (outside the statement: judged on vertex identity, attribute lengths and the four conjuncts "
            "only); random insertion order; 3/4 of the cases scaled by 2^-20..2^20, half of those offset up to 2^30 (2^40 for "
            "slivers) with the metamorphic oracle 'same triangle set as unscaled'; distinct by (points, scale, offset, spare capacity); "
            "the slice handed to BowyerWatson is a window with spare capacity 0/1/2/3/4/16 and is read back after the "
            "call, and the mesh returned by the previous call is read again after the next call; inputs of at most 24 points carry "
            "the harness' exact decision of strong general position, re-decided by gp_strongb; (vii) 1/16 near-degenerate "
            "inputs with integer coordinates: a point 1-3 units off the line through an edge of length 2^20..2^44 (hull or "
            "interior) followed by points across it, or two points 1-4 units apart in a set of extent 2^28..2^38 (relative "
            "offsets 1e-6..3e-14), admitted by the big-integer faithful run; (viii) a size ladder of about 1100, 2100 and "
            "4200 points (jittered lattice in scan order / uniform cloud; thorough: eight rungs, plus one 258-272-point "
            "input through the certified checker) whose triangles are JUDGED BY THE HARNESS' EXACT INTEGER ORACLE, not by "
            "Coq (all triangle/point pairs, winding, directed-edge and vertex-set uniqueness, equality with an exact "
            "replay of the algorithm; Coq sees their vertex identity only); non-trivial = at least 4 points",
    "trusted": ["float64 arithmetic of the implementation is exact on the generated inputs by construction (bound "
                "12*D^4 < 2^53 checked per case by the harness: exactOK) or, for the sliver class, sign-faithful with a "
                "2^-40 margin on every predicate the run evaluates (exact big-integer shadow run in the harness: faithful); "
                "coordinates reach Coq as integers in grid units",
                "size-ladder rungs (1100-4200 points) are judged by the Go oracle in exact int64 arithmetic and admitted by a "
                "replay whose float64 predicates must be robust (2^-40 relative margin); the certified checker is not run on them",
                "known-finding classification (every missing true-Delaunay triangle has a super-triangle vertex inside "
                "or on its circumcircle; output otherwise a duplicate-free, consistently wound subset of the brute-force "
                "Delaunay triangulation) is computed by the harness in exact integer arithmetic; such an input is written "
                "as two cases so that vertex identity and delaunayb are still evaluated in Coq without the FailKey"],
    "modelled": ["Go map iteration order is modelled as list order; bw_order_independent proves the result set does not depend on it",
                 "float64 rounding is outside the model (inputs are chosen so that no rounding occurs)",
                 "log.Print calls of fillHole and the TexCoord attribute (all zero) are not modelled"],
}


def main(argv):
    return vlib.standard_check(CFG, argv)
