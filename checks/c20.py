import vlib

CFG = {
    "id": "C20", "harness": "c20",
    "check_vo": "theories/Check/C20.vo", "prop_vo": "theories/Properties/C20.vo",
    "prop_file": "theories/Properties/C20.v",
    "theory_files": ["theories/Tri/Delaunay.v", "theories/Tri/DelaunayProofs.v",
                     "theories/Tri/BowyerWatson.v", "theories/Tri/BowyerWatsonProofs.v"],
    "level_text": "Coq theorems about an exact-rational model of triangulation.BowyerWatson (vertex identity, common "
                  "clockwise winding with non-zero area, independence of the map iteration order, the repaired super "
                  "triangle strictly contains every input, one-insertion preservation of the empty-circumcircle "
                  "invariant given a star-shaped cavity) and a Delaunay checker proved sound AND complete for the "
                  "four conjuncts of the statement; the checker is run (vm_compute) on every output of the Go code, "
                  "and the model is tied to the Go code by requiring the same triangle set on exact grid inputs",
    "level_note": "Trusted: Coq kernel + vm_compute; hand-written model tied by differential correspondence only; "
                  "full Delaunay correctness of the algorithm (bw_delaunay) is NOT proved - only bw_delaunay_partial; "
                  "the property on the implementation's output is decided per case by the certified checker",
    "technique": "Coq proof (reflection of a Fourier-Motzkin/in-circle checker over Q; invariants by induction over "
                 "the insertion sequence) + vm_compute correspondence check",
    "design_ref": "DESIGN.md §4 C20",
    "n_quick": 128, "n_thorough": 1200,
    "rule": "point sets in general position (no 3 collinear, no 4 concyclic: exact integer rejection) on integer grids "
            "(extent <= 127 so that every float64 operation of the implementation incl. super-triangle tests is exact), "
            "3-200 points, uniform / clustered / flat-hull / near-line / strip / ring, random insertion order, scaled "
            "by 2^-20..2^20 and offset up to 2^30; distinct by (points, scale, offset); non-trivial = at least 4 points",
    "trusted": ["float64 arithmetic of the implementation is exact on the generated inputs by construction (bound "
                "12*D^4 < 2^53 checked per case by the harness: exactOK); coordinates reach Coq as integers in grid units",
                "known-finding classification (hull triangles dropped by the finite super triangle) is computed by the "
                "harness with exact integer/rational arithmetic against a brute-force Delaunay triangulation"],
    "modelled": ["Go map iteration order is modelled as list order; bw_order_independent proves the result set does not depend on it",
                 "float64 rounding is outside the model (inputs are chosen so that no rounding occurs)"],
}


def main(argv):
    return vlib.standard_check(CFG, argv)
