import vlib

CFG = {
    "id": "C20", "harness": "c20",
    "check_vo": "theories/Check/C20.vo", "prop_vo": "theories/Properties/C20.vo",
    "prop_file": "theories/Properties/C20.v",
    "theory_files": ["theories/Tri/Delaunay.v", "theories/Tri/DelaunayProofs.v",
                     "theories/Tri/BowyerWatson.v", "theories/Tri/BowyerWatsonProofs.v",
                     "theories/Tri/DelaunayChar.v", "theories/Tri/BowyerWatsonComplete.v"],
    "level_text": "Coq theorems about an exact-rational model of triangulation.BowyerWatson: vertex identity, common "
                  "clockwise winding with non-zero area under general position, independence of the Go map's iteration "
                  "order (for every schedule), the repaired super triangle strictly contains every input (all scales and "
                  "offsets) while the pinned one does not; the geometric core of Bowyer-Watson: the triangle around the new "
                  "point is bad, every boundary edge of the cavity sees the new point on its inner side (pencil-of-circles "
                  "monotonicity), one insertion preserves the empty-circumcircle invariant, and hence "
                  "(bw_delaunay_partial) the whole run returns clockwise triangles with empty circumcircles GIVEN only the "
                  "combinatorial invariant closed_run (edge closure at every step); a Delaunay checker proved sound AND "
                  "complete for the four conjuncts of the statement. The checker is run (vm_compute) on every output of "
                  "the Go code; the model is tied to the Go code by requiring the same triangle set on exact / "
                  "sign-faithful inputs, and closed_run is decided (proved decision procedure) on every model-compared input",
    "level_note": "Trusted: Coq kernel + vm_compute; hand-written model tied by differential correspondence only; "
                  "full Delaunay correctness of the algorithm (bw_delaunay) is NOT proved: open are the preservation of "
                  "edge closure by an insertion (reduced to edge_unique + boundary_chains by insert_keeps_closed_partial; "
                  "closed_run is checked per tested input) and the non-overlap of the algorithm's output (checked per case "
                  "by the certified checker); coverage of the convex hull fails on /repo HEAD (known finding, "
                  "bw_coverage_refuted)",
    "technique": "Coq proof (reflection of a bounding-box / separating-edge / Fourier-Motzkin and in-circle checker over Q; "
                 "invariants by induction over the insertion sequence; pencil-of-circles identity by ring) + vm_compute "
                 "correspondence check",
    "design_ref": "DESIGN.md §4 C20",
    "n_quick": 96, "n_thorough": 600,
    "rule": "12 fixed corner cases (the repaired defect's input at 2^-7 and 2^-20, the known-finding example, a sparse "
            "sliver that leaves input points without triangles, a 24-spoke wheel) + point sets in general position (no 3 collinear, no 4 "
            "concyclic: exact integer rejection): (i) integer grids of extent <= 127 (<= 254 for the large class) where "
            "every float64 operation of the implementation incl. the super-triangle tests is exact, 3-40 points "
            "model-compared, 1/16 of the cases 41-~125 points checker only, uniform / clustered / flat-hull / near-line / "
            "strip / ring; (ii) 1/8 sparse thin near-collinear slivers (4-12 points, 11 directions, length 2^5..2^16 steps, "
            "sideways spread 1-40 steps: aspect ratios down to 1/65536) admitted by an exact shadow run that requires every "
            "float64 predicate to have the exact sign with a 2^-40 relative margin; (iii) 1/8 wheels: 8-64 rim points in convex position (perturbed circle / "
            "ellipse / parabola arc, radius 150-3900, optional nested ring) plus 1-3 hub points near the centre inserted "
            "last, first or in the middle, admitted by the same faithful-run filter (cavities of up to ~60 triangles; the "
            "largest cavity per case is recorded as max-cavity:*); (iv) 1/16 grid inputs with 1-3 exactly "
            "repeated points (outside the statement: judged on vertex identity, attribute lengths and the four conjuncts "
            "only); random insertion order; 3/4 of the cases scaled by 2^-20..2^20, half of those offset up to 2^30 (2^40 for "
            "slivers) with the metamorphic oracle 'same triangle set as unscaled'; distinct by (points, scale, offset, spare capacity); "
            "the slice handed to BowyerWatson is a window with spare capacity 0/1/2/3/4/16 and is read back after the "
            "call; non-trivial = at least 4 points",
    "trusted": ["float64 arithmetic of the implementation is exact on the generated inputs by construction (bound "
                "12*D^4 < 2^53 checked per case by the harness: exactOK) or, for the sliver class, sign-faithful with a "
                "2^-40 margin on every predicate the run evaluates (exact big-integer shadow run in the harness: faithful); "
                "coordinates reach Coq as integers in grid units",
                "known-finding classification (every missing true-Delaunay triangle has a super-triangle vertex inside "
                "or on its circumcircle; output otherwise a duplicate-free, consistently wound subset of the brute-force "
                "Delaunay triangulation) is computed by the harness in exact integer arithmetic; such an input is written "
                "as two cases so that vertex identity and delaunayb are still evaluated in Coq without the FailKey"],
    "modelled": ["Go map iteration order is modelled as list order; bw_order_independent proves the result set does not depend on it",
                 "float64 rounding is outside the model (inputs are chosen so that no rounding occurs)",
                 "log.Print calls of fillHole and the TexCoord attribute (all zero) are not modelled"],
}


def main(argv):
    return vlib.standard_check(CFG, argv)
