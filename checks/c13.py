import json
import os
import re
import shutil

import vlib


REPLAY = [None]


def pre(rep):
    """(T) regenerate coq/gen/LockFacts.v from $VERIF_REPO/generator/graph/instance.go, then run the harness built
    with the race detector: a race report is a failure of the "no data race" clause."""
    rc, log = vlib.sh([os.path.join(vlib.VERIF, "bin", "regen-c13.sh")], timeout=300)
    ok = rc == 0
    if not ok:
        return False, "bin/regen-c13.sh failed:\n" + log

    n_race = 2500 if rep.tier == "thorough" else 250
    hb_ok, hbin, hlog = vlib.harness_build("c13", race=True, timeout=900)
    if not hb_ok:
        rep.notes.append("race detector: the -race build of the harness failed (%s); no race sampling in this run"
                         % hlog.strip().splitlines()[-1:] )
        return ok, log
    outdir = os.path.join(vlib.BUILD, "run", "C13-race-" + rep.tier)
    shutil.rmtree(outdir, ignore_errors=True)
    os.makedirs(outdir, exist_ok=True)
    env = dict(vlib.GOENV, GORACE="halt_on_error=0 exitcode=66")
    cmd = [hbin, "-seed", str(rep.seed), "-n", str(n_race), "-out", outdir, "-tier", rep.tier, "-unlocked-reads=false",
           "-sweeps=false", "-cold", "40" if rep.tier == "thorough" else "5"]
    if REPLAY[0]:
        cmd += ["-replay", REPLAY[0], "-attempts", "40"]
    rc, out = vlib.sh(cmd, cwd=vlib.VERIF, timeout=600, env=env)
    # Reports in which one side is the documented-unlocked reader Instance.ModelVersion() ("TODO: Make thread safe";
    # the edit server's hub goroutine polls it every 200 ms, so it shows up as soon as a window goes through the real
    # HTTP server) are outside the property's quantifier (UpdateParameter / ParameterData / Artifact): counted and
    # noted, not failing -- see notes/C13.md finding 2 and fixes/C13-lock-schema-and-version-readers.patch.
    reports = re.findall(r"WARNING: DATA RACE.*?={18}", out, re.S)
    unlocked_reader = [r for r in reports if re.search(r"graph\.\(\*Instance\)\.ModelVersion\(\)", r)]
    races = out.count("WARNING: DATA RACE") - len(unlocked_reader)
    for r in unlocked_reader:
        out = out.replace(r, "")
    # race reports of cold-start windows (child processes) belong to exactly one window: report it with that window
    try:
        meta = json.load(open(os.path.join(outdir, "meta.json")))
        cases = vlib.load_cases(outdir)
        for cid in meta.get("go_oracle_failures", [])[:1]:
            c = cases.get(cid, {"id": cid})
            rep.violation({"kind": "property-fails-on-implementation", "case": c,
                           "oracle": "go race detector (report printed while this cold-start window ran in its own "
                                     "process): " + c.get("go_oracle_fail", "")[:3000]})
            races = max(races - 1, 0)
            rc = 0 if rc == 66 and races == 0 else rc
    except (OSError, ValueError):
        pass
    rep.notes.append("race detector: %d windows with -race (UpdateParameter/ParameterData/Artifact only, direct and "
                     "through the edit server's HTTP handlers), %d report(s); %d further report(s) name the "
                     "documented-unlocked reader Instance.ModelVersion() polled by the edit server's hub (outside the "
                     "property's quantifier, not counted)" % (n_race, races, len(unlocked_reader)))
    if rc == 66 and races == 0 and unlocked_reader:
        rc = 0
    if races or rc == 66:
        m = re.search(r"WARNING: DATA RACE.*?={18}", out, re.S)
        rep.violation({"kind": "data-race", "oracle": "go race detector",
                       "detail": (m.group(0) if m else out)[:6000], "reports": races,
                       "cmd": "harness/cmd/c13 built with -race, -seed %s -n %d -unlocked-reads=false" % (rep.seed, n_race)})
    elif rc != 0:
        rep.violation({"kind": "harness-run", "broken": "the -race build of the harness crashed or timed out",
                       "detail": out[-4000:]}, no_input=True)
    return ok, log


CFG = {
    "id": "C13", "harness": "c13",
    "check_vo": "theories/Check/C13.vo", "prop_vo": "theories/Properties/C13.vo",
    "prop_file": "theories/Properties/C13.v",
    "theory_files": ["theories/Graph/Lock.v", "theories/Graph/LockProofs.v", "theories/Graph/LockSemProofs.v",
                     "theories/Graph/LockNodes.v", "theories/Graph/LockAlias.v", "theories/Graph/LockExt.v",
                     "theories/Graph/LockExtProofs.v"],
    "pre": pre,
    "level_text": "Coq theorems about a lock-level model of graph.Instance's three entry points (UpdateParameter, "
                  "ParameterData, Artifact): a small-step interleaving semantics for any number of threads and any "
                  "programs, in which each call is Acquire; body split into single shared-memory accesses; Release "
                  "exactly when the lock facts extracted from instance.go on every run say so. Proved: mutual "
                  "exclusion; every reachable trace is linearizable w.r.t. the sequential specification with "
                  "linearization point = Acquire (hence every artifact is one snapshot, not older than any update "
                  "completed before its invocation); without the Artifact lock a mixed snapshot is reachable; the "
                  "history checker linb decides linearizability; with C11's cache-bearing evaluator (Graph/Nodes.v) run inside the "
                  "critical sections in linearization order every artifact is the from-scratch evaluation of the node "
                  "graph at ONE parameter state, and the node caches are a hidden state no response depends on; "
                  "responses are values, also when they alias parameter storage (adopted buffers; the in-place "
                  "variant is refuted) (a completed call keeps its "
                  "response in every extension of the run). Real concurrent runs (1-8 goroutines, windows of "
                  "<= 12 calls) against the real Instance are judged by the verified checker on every run; every "
                  "returned artifact / ParameterData slice is retained and read again later (end of window, after "
                  "later updates, by a slow consumer during updates) and must still show the value it showed at "
                  "response time; the harness-defined nodes and probe parameters count clients inside Process / "
                  "ApplyMessage / ToMessage (mutual exclusion observed directly, also between ParameterData and "
                  "Artifact); producers may panic (RPanic exactly when the linearization state has a bad value); at every quiescent point each producer of the live instance must agree with a "
                  "fresh instance given the same parameter values (also for producers with failing nodes and for the "
                  "repository's glTF scene producer). Round 4: the HTTP layer is inside the model and the runs -- handler "
                  "facts (T) extracted from generator/app_server.go + app_server_parameter.go (every function reaching an "
                  "entry point performs ONE call site of ONE entry point, bypasses nothing, keeps no state between "
                  "requests); proved: what HTTP clients observe (intervals that contain the Instance call's, the "
                  "call's own response) is linearizable for the checked tree's lock + handler facts; a handler that "
                  "answers with another request's response (cache / coalescing) is refuted; every third epoch of the "
                  "real runs goes through generator.App.Run(edit)'s real HTTP server (POST/GET /parameter/value, GET "
                  "/producer/value, /zip, /started, /schema), incl. an orchestrated serialisation-overlap scenario "
                  "(a download held at a gate inside the artifact's Write, an update acknowledged meanwhile, new "
                  "requests after the acknowledgement). Sequential sweep scripts (one client; proved: the linear "
                  "replay decides linearizability there) walk through update-count coincidences on nodes with 2-3 "
                  "direct parameter dependencies and on shared inner nodes (counts 1-3 x {1..5, 2^k-1, 2^k, 2^k+1 up "
                  "to 257}, both orders, from version 0 and random bases); the element-wise dependency-version "
                  "comparison of nodes.Struct is proved exact and the folded stamp s<<sh^v refuted for every sh",
    "level_note": "The theorems are about the lock-level model parametrised by the generated lock facts (a syntactic "
                  "discipline: Lock first, defer Unlock next, nothing shared touched before, no goroutines/closures, "
                  "callees do not touch the mutex) - they do not cover the Go memory model. Data races and crashes of the "
                  "Go runtime ('no interleaving produces a data race or a crash') are observed only by sampling: the "
                  "same workload under the race detector and recover() around every call - partial on that clause. "
                  "Node evaluation inside the critical section is abstracted to 'read the listed parameters' (caching "
                  "= from-scratch is C11). Schedules of the real runs are whatever the Go scheduler produced (plus one "
                  "orchestrated scenario). The HTTP handlers are modelled as observations of their single Instance call "
                  "(containing interval, own response) under the generated handler facts - request parsing / response "
                  "writing are not given a semantics; the handler facts are conservative (a metrics counter written in a "
                  "value handler would break them). Race reports naming the documented-unlocked reader "
                  "Instance.ModelVersion() (polled by the edit server's hub) are counted, not failing",
    "technique": "Coq proof (invariant over a small-step lock semantics, verified Wing-Gong checker) + generated lock "
                 "facts (T) + vm_compute judgement of recorded concurrent histories (H) + race detector sampling",
    "design_ref": "DESIGN.md §4 C13",
    "n_quick": 500, "n_thorough": 20000, "search_n": 2400,
    "rule": "[round 4: + ~340 (quick) sequential sweep scripts, each on a fresh instance: the full grid (0..3) x "
            "{1,2,3,4,5,7,8,9,15,16,17,31,32,33,63,64,65,127,128,129,255,256,257} of update counts on the 2- and "
            "3-dependency nodes of the fixed shape multi-dep (a=1 complete, a=0 with powers of two >= 64 complete, rest "
            "sampled 1/3 in quick), 24 from random base versions with interleaved bursts, side-read scripts on shared "
            "inner nodes (every other producer read after every update, counts 1-2 x {1..64}), 16 random multi-round "
            "scripts (1/4 through HTTP); every third epoch (at most 60) is served by the repository's edit server and "
            "all its calls are HTTP requests, every fourth window of such an epoch is the serialisation-overlap "
            "scenario, 1/5 of its other windows contain a GET /zip (one artifact call per producer inside one "
            "interval); gated text producers (slow.txt) in every fixed shape and 2/3 of the random ones] "
            "n/16 cold-start windows first (each in a child process on fresh instances, 8 attempts: all clients "
            "released together on node ids never looked up before, 3/4 with File/Image parameters backed by a command "
            "line flag whose lazy first read is contended between ParameterData and a dependent Artifact; a dying "
            "child = failed calls), then "
            "windows of one epoch = one Instance (7 fixed + random graph shapes: 4-6 parameters of types int/probe (a "
            "parameter.Int reporting ApplyMessage/ToMessage to the critical-section probe)/float64/"
            "string/bool/File/Value[[]int]/Image (uniform gray squares uploaded as PNG gray/RGBA/best-compression or "
            "JPEG, ParameterData and image artifacts judged by decoded content) (slice payloads whose length depends on the value: equal and smaller "
            "re-uploads); 2-5 producers: text producers listing 2-5 parameters through shared and two-level join "
            "nodes, some parameters listed twice through different paths, loader-like nodes that FAIL (zero value + "
            "error) for int values divisible by 3 behind a fallback node, nodes that PANIC (division by zero) for int "
            "values divisible by 4 (the client recovers: response RPanic, specified by ArtifactP), basics.Binary on File parameters, a "
            "slice-keeping artifact on []int parameters, and the repository's gltf.ArtifactNode over 2-3 gltf.ModelNode "
            "sharing one mesh node and one gltf.MaterialNode that depend on an int and a float parameter) and 1-8 client goroutines; every slice parameter is "
            "re-uploaded once and read at epoch start (retained set); per window <= 12 calls "
            "(<= 5 update-type: 1/8 malformed) drawn from the seed with reader/writer/mixed roles, released together, "
            "stamps from one atomic counter, quiescence + full parameter/version read between windows; jitter "
            "(Gosched + <= 8 us busy wait) between input reads inside the harness-defined nodes; 0-2 unlocked "
            "ModelVersion() reads, 0-1 Schema() call and 0-2 slow re-reads of retained responses per window; all "
            "responses of the window and <= 8 retained slice-backed responses are re-read at the next quiescent "
            "point, where every producer of the live instance is also compared with a FRESH instance built with "
            "the same parameter values; an epoch ends after a rejected window; distinct by recorded history; non-trivial = an "
            "update overlaps in time with a read/artifact call of another thread",
    "trusted": ["tools/lockfacts handler facts (handlers.go; syntactic, name-based call resolution inside package generator: "
                "functions of app_server.go / app_server_parameter.go and their package callees that reach "
                "UpdateParameter / ParameterData / Artifact; 'shared' = receiver fields, package variables, captured "
                "locals that are assigned / indexed / deleted from / address-taken / method-called, calls of package "
                "functions and of graph.Instance methods excepted)",
                "HTTP transport of the harness (net/http client against generator.App.Run(edit) on a loopback port; "
                "mapping of status/body to responses: empty 200 = accepted update, {error} = rejected, 500 + 'panic "
                "recover' = panicked artifact); stamps are taken before the request is sent and after the body was "
                "read (justified by http_clients_linearizable: widening intervals preserves linearizability)",
                "tools/lockfacts (go/parser based, purely syntactic extraction of the lock discipline of every method of "
                "graph.Instance; receiver fields only - state behind nodes/parameters is reached only through calls made "
                "inside the critical section). It normalises three equivalent idioms to the canonical facts, only when the "
                "helper is found in the same package and its body is exactly the pattern: `defer r.h()()` with h = "
                "`mu.Lock(); return mu.Unlock` (or a closure that only unlocks), `r.lock(); defer r.unlock()` through "
                "one-statement wrappers, `mu.Lock(); defer func(){ mu.Unlock() }()`; every other use of a helper counts "
                "as extra mutex mentions (fact broken), RLock/RUnlock are never accepted",
                "the harness's recording: stamps taken immediately before/after the method call from one atomic counter; "
                "decoding of artifact text / bytes / parameter JSON to numbers; the re-read of retained responses and the "
                "per-node in-flight counters are harness code (prop_ok only compares what they report)",
                "Go race detector (sampling; only for the three entry points the property names)"],
    "modelled": ["HTTP handlers as observations of the Instance calls (Graph/LockExt.v http_obs): same operation, containing "
                 "interval, own response when the handler facts hold",
                 "sequential scripts with compact update bursts (seg / expand / legalb)",
                 "dependency-version comparison of nodes.Struct: element-wise list vs folded stamp",
                 "the node graph and its caches: C11's model (Graph/Nodes.v, tied to the code by C11's own correspondence check)",
                 "slice-backed responses: a heap of buffers and slice headers (Graph/LockAlias.v); adopt vs in-place upload",
                 "sync.Mutex as an atomic Acquire (enabled when free) / Release", "each parameter read/write and the "
                 "version load/store as one atomic step (the Go memory model is not modelled)",
                 "producer evaluation = reading the parameters it lists (node caches: C11)"],
}


def main(argv):
    if "--replay" in argv:
        REPLAY[0] = os.path.abspath(argv[argv.index("--replay") + 1])
    return vlib.standard_check(CFG, argv)
