import vlib

CFG = {
    "id": "C11", "harness": "c11",
    "check_vo": "theories/Check/C11.vo", "prop_vo": "theories/Properties/C11.vo",
    "prop_file": "theories/Properties/C11.v",
    "theory_files": ["theories/Graph/Nodes.v", "theories/Graph/NodesProofs.v", "theories/Graph/NodesMore.v",
                     "theories/Graph/NodesLazy.v", "theories/Graph/NodesLazyProofs.v", "theories/Graph/NodesLazyHist.v"],
    "level_text": "Coq theorems about an executable model of nodes.Struct (Value/Outdated/process/SetInput/Dependencies) and "
                  "parameter nodes, for every history of SetParam/Connect/Disconnect/Read from the unconnected graph on every "
                  "DAG: a read returns the from-scratch value of the current wiring and parameters, under EVERY dependency "
                  "enumeration order; with the repaired (sorted) order a node that has executed does not execute again until "
                  "a parameter in its cone is set or a node of its cone is re-wired; Version() = number of executions; the "
                  "pinned map order admits a spurious execution (witness). Round 4: reads are TOTAL and fresh under EVERY permutation "
                  "order; a second read of a node (or of any node of its cone) leaves the whole node table unchanged; during one "
                  "read every node executes at most once and its version grows by exactly that (refuted for the map order: a "
                  "diamond executes the shared node twice in one read); State() is complete: right after a parameter update or a "
                  "re-wiring every node whose cone contains the target reports Stale. The model is tied to the Go code on every run by "
                  "evaluating it (vm_compute) on the implementation's histories (value, Version(), State(), execution counter "
                  "of ALL nodes after EVERY operation) and by a direct oracle on the implementation's output "
                  "(freshness incl. panic outcome, executions only when the cone was touched, version = executions, State() of every "
                  "node = touched-since-last-execution)",
    "level_note": "Processors that skip inputs (repeat.LineNodeData, extrude.ScrewNodeData; repaired by /repo 6677351) are modelled (Graph/NodesLazy.v: reading discipline = ports in declaration order until a function of the values read says stop, depUnread, repaired Outdated()) and PROVED at history level (Graph/NodesLazyHist.v): read_fresh_skipping_processors (any depth, any single enumeration order) and exec_only_if_read_cone_changed_skipping_processors_partial (an up-to-date node, e.g. the node read, neither runs nor goes stale while no edit targets its READ cone; partial: not yet shown that every node executed as an input of another read ends up to date, Version() = executions not restated for lrun); their histories are CLazy cases: corr_ok runs lrun / lvalue / lstale on the same operations (Version / State / executions of all nodes after every operation), prop_ok judges freshness, executions only after a change in the cone, the node read Processed. Totality of reads and three-outcome freshness (value / error-value / panic, both directions) are proved; the panic theorems assume a stable enumeration order (any-order: value direction only). Trusted: Coq kernel + vm_compute; hand-written model tied by differential correspondence only (generator "
                  "quality bounds it); node values are ints and processors are harness-defined (order-sensitive polynomial "
                  "hash); the theorems quantify over arbitrary processor functions that read every input port in "
                  "declaration order; cycles are outside the property (the Go code does not terminate on them)",
    "technique": "Coq proof (invariants over operation histories of a fuel-recursive model of Struct.Value/Outdated) + vm_compute correspondence check",
    "design_ref": "DESIGN.md §4 C11, §5 entry 12",
    "n_quick": 150, "n_thorough": 1000,
    "rule": "17 fixed histories (4-input node with 240 idle reads, 12-element array port with delete/append/clear, upstream "
            "re-wiring, zero-input nodes, chain read repeatedly, only-the-last-dependency changes, failing node in a "
            "non-terminal position with the parameter toggling between rejected and accepted values and consumers read "
            "without reading the failed node, node with two array ports and plain ports before/between/after them at "
            "pairwise different versions with 240 idle reads, prefix-sharing names I/In.k/In2/Ina/Inb.k with 200 idle "
            "reads, PANICKING node shared by several consumers (panic, panic again, other consumer, partial commit of an "
            "earlier input, recovery), node with input fields declared as one-method interface / any / embedding "
            "interface next to a NodeOutput field, slice/map/struct-valued parameter.Value nodes with update messages that "
            "are REJECTED after a valid prefix) + random histories of "
            "30-90 (thorough 40-220) operations on graphs of 4-12 (thorough 4-40) nodes of 10 harness-defined struct kinds, one third of them with a processor that returns an error when its hash is divisible by 3, one quarter with a processor that panics when it is divisible by 5 (the harness recovers the panic at the read: third outcome) "
            "(1-6 scalar ports, array ports, mixed), one third built by nodes.NewStruct, and every repository parameter kind (parameter.Value[int] plain and flag-initialised, nodes.ValueNode; parameter.Value[[]int] / [map[string]int] / [struct] / [string] / [float64] / [bool] / [vector3.Float64] / [[]vector3.Float64] and parameter.File seen through an int-hash adapter), one third with 1-2 subscribers; update messages are handed over in a buffer that is overwritten after ApplyMessage returns; 1/8 of the updates set the zero value; one third of the connections wire the node itself or a renamed output instead of Out(); rejected update messages 4%; "
            "shapes chain / diamond / array fan-in (9-15 connections, names sort V.10 < V.2) / scalar fan-in / shared "
            "subgraph / random; operations: reads 34%, parameter updates 18% (1/6 with the same value), connects 20%, "
            "disconnects 10% (array delete at index, '+k', '0k', clear), runs of 3-10 idle reads 8%, invalid port names / "
            "indices 5% (must be rejected), read-everything 5%; cycle-closing connects are dropped by the generator; "
            "plus 3 fixed + N/5 random CLazy histories over processors that SKIP inputs (harness gate type: stop after Gate / after A "
            "depending on the gate value; the repository's repeat.LineNodeData with Times 0/2..5; wiring through SetInput, parameter "
            "updates, reads, idle reads), evaluated through lrun/lvalue/lstale; every history runs in a child process (batches of 40 "
            "with a deadline): a crash or hang of the implementation becomes a failing case with that history as replay; "
            "distinct by history; non-trivial = at least one executing read and one edit",
    "trusted": ["execution counters are counted by the harness-defined Process() methods",
                "the harness checks Outdated() == (State() == Stale) on every struct node after every operation itself (Go side)",
                "prop_ok evaluates the verified eval_scratch in Coq on the wiring tracked from the operations alone "
                "(port edits by the documented meaning of SetInput), plus an independent from-scratch evaluation in Go"],
    "modelled": ["reflection helpers of refutil (SetStructField / AddToStructFieldArray / RemoveFromStructFieldArray / "
                 "FieldValuesOfType*) are modelled as list edits of named ports; declared panics of reflect are 'rejected'",
                 "Go map iteration order is modelled as an arbitrary permutation oracle",
                 "a parameter is (version, value): the three sources of parameter.Value.Value() (applied message, parsed flag, default) are exercised by a flag-initialised kind but the model starts from the resulting value; FromJSON / ToJSON / Schema / Swagger (graph loading, documentation) are outside the histories; there is no node type with more than one output port in this snapshot (a StructOutput under another name serves the same value and is exercised)",
                 "subscriptions (Alert) are not modelled; the error component of Process() is write-only in the code (never returned by Value/State/Version/Outdated): the model keeps the value component, failing harness processors return a value no successful run produces"],
}


def main(argv):
    return vlib.standard_check(CFG, argv)
