import vlib

CFG = {
    "id": "C11", "harness": "c11",
    "check_vo": "theories/Check/C11.vo", "prop_vo": "theories/Properties/C11.vo",
    "prop_file": "theories/Properties/C11.v",
    "theory_files": ["theories/Graph/Nodes.v", "theories/Graph/NodesProofs.v"],
    "level_text": "TODO",
    "level_note": "TODO",
    "technique": "Coq proof (invariants over operation histories of a fuel-recursive model of Struct.Value/Outdated) + vm_compute correspondence check",
    "design_ref": "DESIGN.md §4 C11, §5 entry 12",
    "n_quick": 150, "n_thorough": 1500,
    "rule": "TODO",
    "trusted": [],
    "modelled": [],
}


def main(argv):
    return vlib.standard_check(CFG, argv)
