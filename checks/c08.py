import vlib

CFG = {
    "id": "C08", "harness": "c08",
    "check_vo": "theories/Check/C08.vo", "prop_vo": "theories/Properties/C08.vo",
    "prop_file": "theories/Properties/C08.v",
    "theory_files": ["theories/Base/Bytes.v", "theories/Base/BytesProofs.v", "theories/Base/BytesMore.v",
                     "theories/Formats/PlyRead.v", "theories/Formats/PlyReadSpec.v", "theories/Formats/PlyReadProofs.v"],
    "level_text": "Coq theorems about an executable model of ply.ReadMesh (header parser, per-property offsets, group "
                  "readers, unclaimed scalars, list readers, quad fan) against a reference encoder of the PLY "
                  "specification's grammar, for every property list / record / format; the model is tied to the Go "
                  "code on every run by evaluating it (vm_compute) on files produced by an independent Go reference "
                  "encoder and comparing with what ply.ReadMesh returned, and the implementation's mesh is judged "
                  "directly against the mesh the abstract file describes",
    "level_note": "Trusted: Coq kernel + vm_compute; hand-written model tied by differential correspondence only "
                  "(generator quality bounds it); number text (strconv), line splitting and '\\r' removal are Go-side: "
                  "the harness tokenises the real bytes with its own tokenizer",
    "technique": "Coq proof (induction over property lists, records, header lines, faces) + vm_compute correspondence check",
    "design_ref": "DESIGN.md §4 C08",
    "n_quick": 260, "n_thorough": 6000,
    "rule": "see harness/cmd/c08/main.go",
    "trusted": ["strconv.ParseFloat/ParseInt/FormatFloat and strings.Fields are outside the model: the harness passes "
                "each ASCII token as the pair (ParseInt result, ParseFloat bits)",
                "float64(b)/255 is tabulated for the 256 byte values (table checked against Go on every run by the correspondence)"],
    "modelled": ["formats/ply/reader.go ReadHeader + MeshReader.Read, reader_vector1-4.go builders and readers, "
                 "reader_list_ascii.go / reader_list_binary.go, meshops.Unweld for per-corner texture coordinates"],
}


def main(argv):
    return vlib.standard_check(CFG, argv)
