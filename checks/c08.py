import vlib

CFG = {
    "id": "C08", "harness": "c08",
    "check_vo": "theories/Check/C08.vo", "prop_vo": "theories/Properties/C08.vo",
    "prop_file": "theories/Properties/C08.v",
    "theory_files": ["theories/Base/Bytes.v", "theories/Base/BytesProofs.v", "theories/Base/BytesMore.v",
                     "theories/Formats/PlyRead.v", "theories/Formats/PlyReadSpec.v", "theories/Formats/PlyReadProofs.v", "theories/Formats/PlyReadMesh.v", "theories/Formats/PlyReadMore.v", "theories/Formats/PlyBig.v",
                     "theories/Formats/PlyText.v", "theories/Formats/PlyTextProofs.v", "theories/Formats/PlyReadV2.v"],
    "level_text": "Coq theorems about an executable model of ply.ReadMesh against a reference encoder of the PLY "
                  "specification's grammar: END TO END read_mesh (encode a) = describe a for every abstract file in the "
                  "quantifier (point clouds, tri/quad meshes, meshes with per-corner texture coordinates; any property "
                  "order and uchar/int/float/double mix; uchar/int/uint counts, int/uint indices; ascii/LE/BE; header "
                  "noise and alias spellings; blank body lines; CRLF via a Coq model of readLine + strings.Fields; further "
                  "elements and data after the face element), composed from layout, record, group, unclaimed-scalar, "
                  "list-reader, quad-fan (one statement with / without texcoord list, binary and ascii) and unweld "
                  "(corner k carries the vertex it references) theorems, with _refuted witnesses for the known finding and "
                  "for elements before the vertex element; the model is tied to the Go code on every run by evaluating it "
                  "(vm_compute) on files produced by an independent Go reference encoder and comparing with what "
                  "ply.ReadMesh returned, and the implementation's mesh is judged directly against the mesh the abstract "
                  "file describes; files past internal block sizes (> 64 KiB of records, > 65536 vertices) are named by a "
                  "formula evaluated on both sides and compared by position-sensitive fingerprints",
    "level_note": "Trusted: Coq kernel + vm_compute (incl. primitive 63-bit integers for the fingerprints of formula files); "
                  "hand-written model tied by differential correspondence only (generator quality bounds it); number text "
                  "(strconv), line splitting and '\\r' removal are Go-side: the harness tokenises the real bytes with its "
                  "own tokenizer; formula files: equality of 63-bit rolling fingerprints stands for equality of bodies "
                  "and meshes",
    "technique": "Coq proof (induction over property lists, records, header lines, faces; composition to whole files) + vm_compute correspondence check",
    "design_ref": "DESIGN.md §4 C08",
    "n_quick": 180, "n_thorough": 6000,
    "rule": "fixed streams on every run, independent of the seed: formula files past internal block sizes (quick: 65540 "
            "one-byte little-endian records followed by faces with vertex numbers above 65535; thorough: also "
            "24/25/27/40-byte records around 64 KiB in both byte orders, an ascii body and binary / ascii face blocks "
            "above 64 KiB; fingerprints), two ascii files with a face line longer than 64 KiB, the same property names with other types "
            "read right after one another, 30 files whose number of face corners equals / is one triangle away "
            "from the number of vertices with permuted, identity and repeated indices, 23 malformed or unimplemented files "
            "(model vs implementation), and systematic files (per encoding: every recognised group with its "
            "members permuted and unrelated properties of other sizes between them; float triples whose outer members "
            "are 8 bytes apart with the middle one elsewhere; quads and triangles with repeated indices in every "
            "position, with and without per-corner UVs; lone / partial / type-mixed group members as extra properties; "
            "alpha before / between / after the colour channels with the same or another type, three spellings; all 256 "
            "bytes through the uchar (s,t) and a uchar vec3 reader) + fixed corner files (3 encodings x 8 layouts: alpha before/after/between colour bytes, element face 0, int "
            "16777217 + non-float32 double, uchar scalar, quad+triangle with per-corner UVs, no vertices) + random "
            "abstract files through an independent Go reference encoder: 3-14 vertex properties from recognised groups "
            "and unrecognised names, block-wise or fully permuted, type mixes (uchar/int/float/double; odd-typed or "
            "missing group member), aliases, 0-6 vertices with boundary values, face element with uchar/int/uint counts, "
            "int/uint indices, vertex_index(/indices), optional texcoord float/double and extra list properties, "
            "tri/mixed/quad, header noise (comment/obj_info/blank lines incl. the words element, property, end_header), "
            "CRLF, blank line before the format line, other elements after the faces, face soups (as many vertices as "
            "corners), ascii/LE/BE; every 10th file a pair through the same reader (first mesh rendered after a second "
            "file of the same layout was read / first file read again / same names with other types read right after); "
            "every 4th file and all fixed files also through a reader with short reads, ply.Load and the ReadNode wrapper; "
            "one random formula file around a power-of-two body size per quick run (every 60th file in a thorough run); 1/12 cut streams; a small share outside the quantifier "
            "(char/short/ushort/uint, vertex list property, n-gons, unusual count/index types) compared with the model "
            "only; distinct by file bytes; non-trivial = at least one vertex and three properties",
    "trusted": ["formula files (Formats/PlyBig.v): body and mesh are compared through 63-bit rolling fingerprints "
                "(h' = h*2654435761 + x + 1, every 64-bit word as two halves), computed by Coq's primitive integers and by Go",
                "uchar (s,t) pairs: Go multiplies by 1/255 (vector2.DivByConstant); the implementation's TexCoord values are "
                "translated through a second 256-entry table (Formats/PlyReadV2.v) before the comparison",
                "strconv.ParseFloat/ParseInt/FormatFloat and strings.Fields are outside the model: the harness passes "
                "each ASCII token as the pair (ParseInt result, ParseFloat bits)",
                "float64(b)/255 is tabulated for the 256 byte values (table checked against Go on every run by the correspondence)"],
    "modelled": ["formats/ply/reader.go ReadHeader + MeshReader.Read, reader_vector1-4.go builders and readers, "
                 "reader_list_ascii.go / reader_list_binary.go, meshops.Unweld for per-corner texture coordinates; "
                 "ply.Load (bufio.Reader) and types.go ReadNodeData.Process only as 'same result as ReadMesh on the same bytes'"],
}


def main(argv):
    return vlib.standard_check(CFG, argv)
