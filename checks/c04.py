import vlib

CFG = {
    "id": "C04", "harness": "c04",
    "check_vo": "theories/Check/C04.vo", "prop_vo": "theories/Properties/C04.vo",
    "prop_file": "theories/Properties/C04.v",
    "theory_files": ["theories/Base/Bytes.v", "theories/Base/BytesMore.v", "theories/Base/BytesProofs.v",
                     "theories/Formats/PlyRead.v", "theories/Formats/PlyWrite.v", "theories/Formats/PlyWriteProofs.v"],
    "level_text": "Coq theorems about an executable model of polyform's PLY writer (property-writer table, header, "
                  "per-vertex records, face records with per-corner texture coordinates; ASCII token lines, little- and "
                  "big-endian bytes) composed with the PLY reader model: for every well-formed point cloud / triangle mesh "
                  "read_mesh (write o f m) = Ok (expected o m) is proved for ply.Write's table in all three encodings (whole "
                  "file: header, vertex element, face element, reader construction, regrouping, unweld); both models are tied to the Go code on every run by evaluating them (vm_compute) on the "
                  "files polyform wrote and the meshes ply.ReadMesh returned, plus a direct per-corner oracle",
    "level_note": "Trusted: Coq kernel + vm_compute; hand-written models tied by differential correspondence only "
                  "(generator quality bounds it); strconv number printing/parsing and the float64->float32 conversion "
                  "are Go-side; the whole-file theorems cover ply.Write's table (unspecified properties on/off) except point "
                  "clouds with per-vertex s/t texture coordinates, proved through placed readers under a decidable side condition; "
                  "custom writer tables are covered by a conditional theorem, the correspondence and the oracle",
    "technique": "Coq proof (induction over property lists, vertex records, face records; byte/token level round trip) "
                 "+ vm_compute correspondence check",
    "design_ref": "DESIGN.md §4 C04",
    "n_quick": 60, "n_thorough": 1000,
    "rule": "random point clouds and triangle meshes (0-12 vertices, 0-10 triangles; welded, unwelded, unreferenced "
            "vertices, degenerate and empty face lists) with any subset of Position/Normal/Color/TexCoord/FDC/Opacity/"
            "Scale/Rotation and 0-3 user-named attributes of dimension 1-4, float32-exact values (dyadic, integers, -0, "
            "1e20, subnormal; colours on k/255 and (k+.5)/255), written with ply.Write, the default table without "
            "unspecified properties, and custom tables (one explicit writer per attribute x uchar/int/float/double storage x "
            "recognised spellings or fresh names, values at the limits of each type; splat table) in ASCII, little- and big-endian; distinct by mesh+configuration; "
            "non-trivial = at least one vertex and one attribute",
    "trusted": ["strconv number printing/parsing (ASCII) is outside the model: the harness tokenises the written text "
                "independently and converts number tokens with strconv",
                "float64->float32 rounding is performed by Go (math.Float32bits) and passed to the model as words; "
                "inputs are float32-exact so the comparison is exact"],
    "modelled": ["MeshWriter.Write, property writers, Header.Write, writeBinaryTriTopo/writeAsciiTriTopo are modelled "
                 "by hand (Formats/PlyWrite.v) and checked against the implementation's bytes/tokens on every run",
                 "the reader is the C08 model Formats/PlyRead.v, checked against ply.ReadMesh on every written file"],
}


def main(argv):
    return vlib.standard_check(CFG, argv)
