import vlib

CFG = {
    "id": "C04", "harness": "c04",
    "check_vo": "theories/Check/C04.vo", "prop_vo": "theories/Properties/C04.vo",
    "prop_file": "theories/Properties/C04.v",
    "theory_files": ["theories/Base/Bytes.v", "theories/Base/BytesMore.v", "theories/Base/BytesProofs.v",
                     "theories/Formats/PlyRead.v", "theories/Formats/PlyWrite.v", "theories/Formats/PlyWriteProofs.v",
                     "theories/Formats/PlyWritePlaced.v"],
    "level_text": "Coq theorems about an executable model of polyform's PLY writer (property-writer table, header, "
                  "per-vertex records, face records with per-corner texture coordinates; ASCII token lines, little- and "
                  "big-endian bytes) composed with the PLY reader model: for EVERY well-formed point cloud / triangle mesh and "
                  "ply.Write's table (unspecified properties on or off) the three files exist, decode to one mesh with the "
                  "topology, indices and attributes of expected o m, and each header describes its body "
                  "(ply_write_read_property_all; whole file: header, vertex element, face element, reader construction incl. the "
                  "reader's own ordering for per-vertex s/t, regrouping, unweld); both models are tied to the Go code on every run "
                  "by evaluating them (vm_compute) on the files polyform wrote and the meshes ply.ReadMesh returned, plus a direct "
                  "per-corner oracle; sizes past internal block limits (4 KiB .. 64 KiB of vertex / face records, 2^16 vertices, "
                  "indices beyond 2^16) and the whole finite float32 range are judged by fingerprints of synthetic meshes",
    "level_note": "Trusted: Coq kernel + vm_compute; hand-written models tied by differential correspondence only "
                  "(generator quality bounds it); strconv number printing/parsing and the float64->float32 conversion "
                  "are Go-side; the whole-file theorems cover ply.Write's table for every mesh accepted by wf_mesh (one explicit "
                  "decidable exclusion: a point cloud with TexCoord whose user attributes are themselves named s or t - duplicate "
                  "property names, refuted witness in Properties/C04.v); custom writer tables are covered by a conditional theorem, "
                  "the correspondence and the oracle; large synthetic meshes are compared by two 63-bit polynomial fingerprints "
                  "(the writer model is evaluated on them up to 400 vertices / faces, beyond that the oracle alone judges)",
    "technique": "Coq proof (induction over property lists, vertex records, face records; byte/token level round trip) "
                 "+ vm_compute correspondence check",
    "design_ref": "DESIGN.md §4 C04",
    "n_quick": 60, "n_thorough": 1000,
    "rule": "random point clouds and triangle meshes (0-12 vertices, 0-10 triangles; welded, unwelded, unreferenced "
            "vertices, degenerate and empty face lists) with any subset of Position/Normal/Color/TexCoord/FDC/Opacity/"
            "Scale/Rotation and 0-3 user-named attributes of dimension 1-4, float32-exact values (dyadic, integers, -0, "
            "magnitudes beyond int32/int64/uint64, largest/smallest normal and denormal float32; colours on k/255 and "
            "(k+.5)/255), written with ply.Write, the default table without "
            "unspecified properties, and custom tables (one explicit writer per attribute x uchar/int/float/double storage x "
            "recognised spellings or fresh names, values at the limits of each type; splat table) in ASCII, little- and big-endian, "
            "with or without a (textured) material; read back through bytes.Reader or short-read readers (one byte, half, "
            "data+EOF, random chunks); results rendered only after all reads and one unrelated read; plus a systematic family of "
            "large synthetic meshes (vertex / face records crossing 4/8/32/64 KiB, 65535-65793 vertices, indices beyond 2^16, "
            "corner count = vertex count) with values over every float32 exponent; distinct by mesh+configuration; "
            "non-trivial = at least one vertex and one attribute",
    "trusted": ["strconv number printing/parsing (ASCII) is outside the model: the harness tokenises the written text "
                "independently and converts number tokens with strconv",
                "float64->float32 rounding is performed by Go (math.Float32bits) and passed to the model as words; "
                "inputs are float32-exact so the comparison is exact",
                "large synthetic meshes: the harness sends lengths, header lines and two polynomial fingerprints modulo 2^63 "
                "of body bytes / tokens and of the returned mesh; Check/C04.v recomputes them from the parameters on Coq's "
                "machine integers (Uint63, axiom-free primitives evaluated by vm_compute)"],
    "modelled": ["MeshWriter.Write, property writers, Header.Write, writeBinaryTriTopo/writeAsciiTriTopo are modelled "
                 "by hand (Formats/PlyWrite.v) and checked against the implementation's bytes/tokens on every run",
                 "the reader is the C08 model Formats/PlyRead.v, checked against ply.ReadMesh on every written file",
                 "TextureFile comment of a textured material: written by polyform, stripped by the harness before the "
                 "header comparison (not modelled); binary writers for char/short/ushort/uint (declared panic) not exercised"],
}


def main(argv):
    return vlib.standard_check(CFG, argv)
