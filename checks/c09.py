import json
import os

import vlib


def regen(rep):
    """T binding: coq/gen/MarchTable.v is regenerated from $VERIF_REPO/modeling/marching/{table,canvas}.go on every
    run (tools/tab2coq); the file is rewritten only when its content changes."""
    env = dict(vlib.GOENV, VERIF_REPO=vlib.REPO, VERIF_COQ=vlib.COQ)
    rc, out = vlib.sh([os.path.join(vlib.VERIF, "bin", "regen-c09.sh")], cwd=vlib.VERIF, timeout=300, env=env)
    return rc == 0, "regeneration of coq/gen/MarchTable.v from the Go tables failed:\n" + out


def hires_listed():
    """The cases in which the position-based final weld is known to pinch the surface -- above 40 cubes per unit
    (1e-3 units no longer small against a cell) and lattices with samples exactly on the cutoff -- are generated
    only once the finding is listed in known_findings.json (any status: known, or fixed after the repair landed)
    or when C09_FINDINGS=1."""
    if os.environ.get("C09_FINDINGS"):
        return True
    try:
        data = json.load(open(os.path.join(vlib.VERIF, "known_findings.json")))
    except (OSError, ValueError):
        return False
    return any(e.get("key") == "march:weld-precision-vs-resolution" for e in data.get("findings", []))


CFG = {
    "id": "C09", "harness": "c09",
    "check_vo": "theories/Check/C09.vo", "prop_vo": "theories/Properties/C09.vo",
    "prop_file": "theories/Properties/C09.v",
    "pre": regen,
    "theory_files": ["gen/MarchTable.v", "theories/March/Grid.v", "theories/March/TableProps.v",
                     "theories/March/GridProofs.v", "theories/March/SurfaceProofs.v",
                     "theories/March/Closed.v", "theories/March/ClosedProofs.v",
                     "theories/March/Blocks.v", "theories/March/BlocksProofs.v",
                     "theories/March/VertexProofs.v", "theories/March/Canvas.v", "theories/March/CanvasProofs.v",
                     "theories/March/Weld.v", "theories/March/WeldProofs.v",
                     "theories/March/VolumeProofs.v", "theories/March/IsoProofs.v",
                     "theories/March/Store.v", "theories/March/StoreProofs.v"],
    "level_text": "Coq theorems about a sign-grid model of marchFloat1BlockPosition whose lookup tables are GENERATED from "
                  "table.go/canvas.go on every run: finite facts about all 256 cases (vm_compute) lifted by induction-free "
                  "counting to every sign grid of any extent (grid_closed: each directed edge at most once, reverse equally "
                  "often), no degenerate faces, orientation of the table, enclosed volume = sum of per-case below-cutoff cell "
                  "volumes > 0 (surface_volume_decomposition / _positive / _bracket, midpoint vertices), vertices on edges with a "
                  "sign change and within one cell of the true isosurface for Lipschitz fields (iso_value_within_cell over Q, "
                  "iso_distance over R with C19's lipschitz1 and the intermediate value theorem), block index arithmetic, "
                  "storage_layout for a model of AddField/addFloat1Range, blocks_cover / canvas_eq_grid / canvas_closed / "
                  "canvas_closed_end_to_end for a model of fieldBounds, chunkSectionsInRange and the block loop with its "
                  "continues, weld_manifold for the repaired weld over Q; the model (incl. the final weld as a relabelling) is "
                  "compared with the real canvas on every run and the property is evaluated by a verified closedness test on "
                  "the implementation's own triangles",
    "level_note": "Trusted: Coq kernel + vm_compute; tools/tab2coq (table translation); the hand-written cell loop and AddField "
                  "loop of the model tied by differential correspondence only; all floating point (field evaluation, "
                  "interpolation, weld rounding, enclosed volume of the real output) is Go-side; iso_distance uses Coq's "
                  "classical real numbers (3 stdlib axioms shown by Print Assumptions), every other theorem is closed under the "
                  "global context",
    "technique": "Coq proof (finite table lemmas by vm_compute + unbounded lifting over sign grids) + vm_compute "
                 "correspondence check against the real MarchingCanvas",
    "design_ref": "DESIGN.md §4 C09",
    "n_quick": 12, "n_thorough": 400,
    "search_n": 80,
    "harness_timeout": 3000,
    "rule": "unions (CombineFields) and sums (repeated AddField) of 1-4 spheres / boxes (1/3 lattice aligned) / capsules "
            "(1/4 of the single ones 90-215 cells long) with centres on, near or away from block boundaries (multiples of 100 "
            "cells) in 0-3 axes incl. negative blocks, 3-40 cubes per unit (integral and fractional), cutoff 0 or negative, "
            "AddField/AddFieldParallel, March/MarchParallel; arbitrary sign patterns on 3..7^3 lattices with values exactly on "
            "the cutoff; all 256 corner patterns of one cell inside a block and across a block face in x, y, z; a few large "
            "shapes (harness-side oracles only); systematic block streams: per axis two lattice-aligned beams whose below-cutoff "
            "samples span exactly 100m-1..100m+100 and 100m..100m+99 (through a whole block, incl. negative blocks), a tilted "
            "capsule 101-260 cells long entering before a block boundary, one capsule diagonal in a coordinate plane (>100 cells "
            "on both axes), and 12 short boxes whose lowest/highest below-cutoff sample lies exactly on index 0 / 99 of a block "
            "for every axis and sign; 1/10 of the random shapes is such a long thin shape; 18 unions (overlapping / nested / disjoint members x cutoff 0, "
            "0.5, 1.5 cells below zero x CombineFields / one AddField per member) judged against the independent reference field; "
            "every signed-distance constructor / combinator of modeling/marching (Sphere, Box, Line, MultiSegmentLine, "
            "VarryingThicknessLine, Subtract, MirrorAxis, Field.Translate, CombineFields) at strength 0.5, 1, 2, 10, thin (about "
            "one cell) and thick (3-4 cells), plus capsules with coinciding end points; every case: no NaN/Inf in any output "
            "attribute; `touching`: fields whose samples equal the cutoff on whole planes with below-cutoff samples on both "
            "sides (unit boxes with integer world coordinates sharing a face / a block on a slab / a partial face / the "
            "shared plane on a storage-block boundary at 4, 5, 8, 10 cubes per unit; lattices with a (half) plane of samples "
            "equal to the cutoff between two slabs, cutoff 0 and -0.5); `pow2-extent`: thin boxes whose end faces are exactly "
            "2^k/10^4 cells apart (k = 16..22, 2^21 = 209.7152 cells always), from negative to positive coordinates, "
            "crossings on whole weld buckets; block streams alternate AddField / AddFieldParallel; 1/4 of the random shapes "
            "are marched three times (lower cutoff, same cutoff, judged call); single-field cases (constructors, CombineFields "
            "unions, lattices, random shapes) are also marched through Field.March and Field.Voxelize and compared with the "
            "canvas where the world-unit weld of Field.March cannot interfere; `attribute`: "
            "two-attribute fields marched with MarchOnAttribute(Parallel) on a non-position attribute, alone and through "
            "CombineFields / MirrorAxis / Subtract / Translate (cases that depend on Go's map order are built and judged four times); `addfieldparallel2`: random shapes and fields with two and three Float1 functions added through AddFieldParallel2. Distinct by input; non-trivial = at least one output triangle",
    "trusted": ["sign grid = implementation's own field functions re-evaluated by the harness at the positions and in the "
                "accumulation order of addFloat1Range (canvas storage is unexported)",
                "weld buckets (modeling.Vector3ToInt(position, 3)) of output vertices and of the crossing points are computed "
                "in Go; crossing points by the formula of interpolateVerts in all eight cell/direction variants",
                "independent reference field (harness/cmd/c09/reference.go: closed-form distances of sphere / box / capsule and "
                "their min / sum combination written out in plain float64, nothing of math/sdf or CombineFields called): lattice "
                "samples of the implementation's field functions equal it (1e-9), every output vertex of a union or single "
                "member has |reference - cutoff| <= strength * one cell, enclosed volume lies between the numbers of cells with "
                "8 and with >= 1 below-cutoff corners of the reference sign grid",
                "Field.March / Field.Voxelize (second marching path) judged against the canvas result: same triangle and vertex "
                "counts, closed, positive volume, vertices within 1.5e-3 cells, interpolated field value = cutoff; only where "
                "no sample is within 1e-7 of the cutoff and no two crossing points share a 1e-3 world-unit bucket",
                "harness-side float oracles: enclosed volume > 0, every output vertex equals (1e-9) the crossing point of a "
                "grid edge with a sign change at parameter in [0,1], per-triangle orientation against the sign change"],
    "modelled": ["AddField / addFloat1Range as folds over the blocks and the clipped lattice ranges (March/Store.v), "
                 "fieldBounds, chunkSectionsInRange, the three `continue`s of the block loop (March/Canvas.v)",
                 "one cell of marchFloat1BlockPosition (case index, table row, cube edge -> grid edge) with tables generated "
                 "from the Go source; the loop over blocks/cells is modelled as the list of cells of a box",
                 "WeldByFloat3Attribute modelled as relabelling by bucket + dropping collapsed triangles; LookupOrAdd "
                 "(1e-4 cell dedupe) is covered by the same relabelling except when two crossings closer than 2e-4 cells fall "
                 "in different final buckets (such cases are counted and excluded from the model comparison only)"],
}


def listed(key):
    if os.environ.get("C09_FINDINGS"):
        return True
    try:
        data = json.load(open(os.path.join(vlib.VERIF, "known_findings.json")))
    except (OSError, ValueError):
        return False
    return any(e.get("key") == key for e in data.get("findings", []))


def main(argv):
    extra = []
    if hires_listed():
        extra += ["hires", "pinch"]
    # Sphere(strength < 1) declares a domain smaller than the sphere: generated once the finding is listed
    if listed("march:constructor-domain-too-small"):
        extra += ["small-domains"]
    # the attribute / multi-attribute combinator / AddFieldParallel2 streams are unconditional (da2fa8f, 7eac22f, 913f893,
    # 924b580 landed; keys listed as fixed)
    if extra:
        CFG["extra_args"] = extra
    return vlib.standard_check(CFG, argv)
