import vlib

CFG = {
    "id": "C01", "harness": "c01",
    "check_vo": "theories/Check/C01.vo", "prop_vo": "theories/Properties/C01.vo",
    "prop_file": "theories/Properties/C01.v",
    "theory_files": ["theories/Mesh/Heap.v", "theories/Mesh/HeapProofs.v", "theories/Mesh/HeapCommute.v",
                     "theories/Mesh/HeapRefine.v", "theories/Mesh/HeapRefineAppend.v"],
    "level_text": "Coq theorems about a heap-level model of modeling.Mesh (Go slices {ptr,len,cap} into an append-only table "
                  "of backing arrays, Go maps as heap objects named by ids; every mesh operation modelled by which arrays "
                  "and maps it reads, allocates, shares and writes): for every growth policy of append(), every history "
                  "of operations, every pool member and every later time the member reports the same topology, indices, "
                  "materials, attribute names and attribute values (immutable_history), siblings derived from one base "
                  "in either order do not influence one another (siblings_independent, derivations_commute), no "
                  "operation stores into an existing map (maps_append_only); three defect classes are expressed and "
                  "refuted in the same model (pinned in-place Append, a write into a shared map, an in-place tidy-up of a "
                  "slice another mesh's Materials() handed out). heap_refines_pure_partial ties the heap model to the "
                  "pure model of C02/C03 (Mesh/Pure.v): for NewMesh/EmptyMesh/SetIndices/SetMaterial(s)/"
                  "SetMaterials(other.Materials())/ToPointCloud/FlipTriangleWinding/ClearAttributeData the created "
                  "mesh, read through its slices, is the value Pure.step computes, for Append its topology, renumbered "
                  "indices and materials are (append_refines_pure_partial), and every member has one pure value "
                  "for ever (pure_value_stable). The model is tied to the Go code on every run: generated branching "
                  "histories are executed on real modeling.Mesh values, EVERY live mesh is re-read after EVERY step "
                  "through the public API, the snapshots are judged by the property itself (direct oracle) and compared "
                  "with the model run on the same history (vm_compute)",
    "level_note": "Trusted: Coq kernel + vm_compute; hand-written model tied by differential correspondence only (generator "
                  "quality bounds it); contents of arrays produced by float arithmetic (rotations, normals, smoothing, "
                  "primitives) are taken from the implementation - C01 is about sharing, not values; "
                  "heap_refines_pure is partial: the operations that rebuild attribute arrays (the attribute part of Append, "
                  "Unweld, RemovedUnreferencedVertices, Weld, filters, Crop, Slice/Split, repeat) and the attribute "
                  "setters are not connected to Mesh/Pure.v, and mesh_wf (slices lie within their arrays) is a "
                  "hypothesis, not an invariant proved along histories",
    "technique": "Coq proof (frame invariant over an append-only heap, induction over histories) + vm_compute correspondence "
                 "check with re-reading of every live mesh after every step",
    "design_ref": "DESIGN.md §4 C01, §3.3",
    "n_quick": 200, "n_thorough": 2000,
    "rule": "branching derivation histories of 8-16 (thorough: up to 36) public mesh operations over a pool of live "
            "modeling.Mesh values: constructors (NewMesh with caller slices incl. spare capacity, EmptyMesh, "
            "NewPointCloud/NewLineStripMesh from caller maps, primitives.Cube.Welded sharing the package-level index "
            "array, the other primitives Quad/Circle/Cone/Cylinder/UVSphere/Hemisphere/Cube.UnweldedQuads), Append, "
            "SetFloatNAttribute/SetFloatNData/CopyFloatNAttribute (also with a name that exists under another "
            "dimension), SetIndices, SetMaterial(s), SetMaterials(other.Materials()), ClearAttributeData, "
            "Translate/Scale/Rotate/ApplyTRS/ModifyFloatN(+Parallel, +WithPoolSize), meshops attribute transformers "
            "(translate/scale/rotate/center/normalize/colour space/colour LUT/along-normal/flat+smooth normals/"
            "implicit-weld normals/laplacian/laplacian along axis, gausops scale/rotate/LUT; direct and via "
            "Mesh.Transform), ToPointCloud, FlipTriangleWinding, Unweld, RemovedUnreferencedVertices, "
            "WeldByFloat3Attribute, FilterFloatN, RemoveNullFaces3D, CropFloat3Attribute, SliceByPlaneWithAttribute/"
            "SliceByPlaneTransformer, SplitOnUniqueMaterials, repeat.Mesh, Scan*/Transform()/QuadricDecimation/"
            "Pipeline identity results, PLY/OBJ/STL/glTF writers, read-only queries (BoundingBox, OctTree, "
            "VertexNeighborTable, Tri/Point/Line accessors, voxelize, marching.Mesh, iterators); parameters that make "
            "an operation change nothing (weld that merges nothing, filter that keeps everything, translate by 0) "
            "drawn on purpose; biased toward several siblings derived from one base that is itself the result of >=2 "
            "Appends; 1-6 attributes of kinds 1-4, all six topologies, declared errors and index-out-of-range crashes "
            "included; distinct by operation list; non-trivial = at least one Append and one member that is the "
            "operand of two different steps",
    "trusted": ["observation = Topology, Indices, Materials (PrimitiveCount + material identity, which changes when any field "
                "of the Material behind the pointer changes), Float{1..4}Attributes and "
                "every value of every Float{1..4}Attribute iterator, read after every step; floats encoded injectively as "
                "integers (integer-valued floats as themselves, others by bit pattern; -0 = +0)",
                "slices handed to the implementation are allocated per step and never touched again by the harness: a "
                "caller mutating a slice it gave to SetFloat3Attribute/SetIndices/NewMesh, or the slice Materials() hands "
                "out, is outside the property (it quantifies over mesh operations)",
                "export steps count as Ok whatever the writer returns (writers only read; the pool is re-read afterwards); writers "
                "that take the mesh by pointer (glTF) are handed the address of the pool member itself"],
    "modelled": ["Go runtime append/growslice: modelled as in-place write when len+n <= cap, else fresh array of grow(cap,n) "
                 "cells with grow arbitrary (theorem quantifies over it)",
                 "Go map iteration order and AttributeLength()'s choice of 'some attribute': histories keep attribute "
                 "lengths uniform wherever an operation consults AttributeLength",
                 "float arithmetic inside transformers and primitives: integer-valued inputs (exact) or values taken from "
                 "the implementation"],
}


def main(argv):
    return vlib.standard_check(CFG, argv)
