import vlib

CFG = {
    "id": "C06", "harness": "c06",
    "check_vo": "theories/Check/C06.vo", "prop_vo": "theories/Properties/C06.vo",
    "prop_file": "theories/Properties/C06.v",
    "theory_files": ["theories/Base/Bytes.v", "theories/Base/BytesProofs.v", "theories/Formats/Gltf.v",
                     "theories/Formats/GltfProofs.v", "theories/Formats/GltfExtProofs.v",
                     "theories/Formats/GltfDedupProofs.v", "theories/Formats/GltfNodeProofs.v",
                     "theories/Formats/GltfTexProofs.v", "theories/Formats/GltfFinalProofs.v", "theories/Formats/GltfGeomProofs.v",
                     "theories/Formats/GltfGlbProofs.v", "theories/Formats/GltfR4DedupProofs.v",
                     "theories/Formats/GltfR4NodeProofs.v", "theories/Formats/GltfR4TexProofs.v",
                     "theories/Formats/GltfR4ExtraProofs.v", "theories/Formats/GltfR4FullProofs.v"],
    "level_text": "Coq theorems about a state-machine model of the glTF writer (WriteVector2/3/4, WriteIndices, AddTexture, "
                  "AddMaterial, AddMesh, AddScene, AddLight, ToGLTF, WriteGLB): for every scene the buffer views tile the "
                  "buffer, every accessor fits its view and decodes to the model's float32/byte/index image, index width and "
                  "range, per-primitive counts, declared bounds, extension bookkeeping, de-duplication and the GLB length "
                  "arithmetic hold; the whole property sentence is proved in the checker's own boolean form (gltf_valid_model: "
                  "gltf_validb on the model's document = true for every scene_wf scene, alignment excepted); "
                  "the model is tied to the Go code on every run by evaluating it (vm_compute) on generated "
                  "scenes against what an independent reader extracts from WriteBinary/WriteText output, and the property "
                  "checker gltf_validb is evaluated on the implementation's own documents",
    "level_note": "Trusted: Coq kernel + vm_compute; hand-written model tied by differential correspondence only; the JSON "
                  "text is read back by encoding/json (not modelled); payloads above 2600 bytes are compared on the Go side "
                  "by an independent decoder and only the structure goes to Coq. gltf_valid_model assumes scene_wf: pointer "
                  "identity consistent with values (meshes, materials, textures), Go == classes of extension values "
                  "consistent, names that become JSON object keys distinct within their object (unreferenced_entry_refuted "
                  "shows the last is needed). Component alignment is refuted for the "
                  "faithful model (alignment_refuted) and reproduced on the implementation (known finding gltf:unaligned-view)",
    "technique": "Coq proof (invariant over the writer's step function, induction over model lists) + vm_compute correspondence check",
    "design_ref": "DESIGN.md §4 C06, §5 entries 7, 8, 20",
    "n_quick": 220, "n_thorough": 2000,
    "rule": "29 fixed scenes (empty, one triangle, unaligned second mesh, negative-only non-float32 coordinates, shared mesh "
            "pointer x material, materials equal by value / differing only in normal or occlusion texture, instances + TRS + "
            "lights, JOINTS_0 bytes, refused alphaCutoff, 65535/65536/65537 vertices, NaN and -0, texture transform, LOD placements[:2] / placements / placements[2:] as views of one instance array, Position data of three meshes as prefix / window of one array with a shared index array and the same model value listed twice; six of the earlier scenes again through ONE Writer: WriteGLB + ToGLTF + WriteGLB again / two AddScene calls / AddScene + AddLight; identity node transforms, lights at the origin and at -0; image URIs differing only in case or directory with one texture in two slots; the transformed texture stored after the plain one it is de-duplicated onto; 1024 GPU instances; five materials differing only in their extras), 4 (24) "
            "big scenes with 65534..70001 vertices run-length encoded, 6 (26) medium scenes with 255..32768 vertices (powers of two and their neighbours), and the corpus scenes of fix 31c30a5 (materials differing only in a texture's extension list) and of fix fd7cca0 (materials differing only in their extras), random scenes: 1-3 meshes (point/triangle, 0-12 "
            "vertices, attribute mix of Position/Normal/TexCoord/Color/Joint/Weight/custom, value modes mixed / negative only / "
            "tenths / constant / NaN,-0 / float32 edge values: denormals, below the smallest denormal (rounds to +-0), near MaxFloat32, 2^24+1), 0-4 textures over 6 URIs (two differ only in case / directory) and 0-2 samplers, 0-3 material extensions, 0-4 materials "
            "half of them by-value copies with at most one field changed (incl. the extras: none / empty map / {id: k} under a fresh map), 1-6 models with repeated mesh pointers, optional "
            "TRS (1/6 identity, 1/6 -0 / float64 denormal / 1e308), 0-3 GPU instances (1/3 with edge values / NaN translation), 0-2 lights (1/6 at the origin); 3/10 of the scenes are written through ONE Writer (reuse: the second GLB and the text written between the two GLBs are judged, and both GLBs must agree; split: two AddScene calls; addlight: AddScene then AddLight); in 2/3 of the scenes slice-typed inputs are ALIASED: GPU-instance lists, attribute data and index lists become prefix / suffix / window / whole / identical views of shared backing arrays (or equal-by-value private copies), and a model value may be listed twice (the model and the oracles always get the by-value scene); each through WriteBinary and WriteText; plus a byte-for-byte GLB case for "
            "small scenes and an alignment-only case per document; distinct by description; non-trivial = at least one "
            "model with a primitive",
    "trusted": ["encoding/json reads the document back (the JSON text is not modelled; properties the glTF schema requires - "
                "buffer/bufferView byteLength, bufferView.buffer, accessor componentType/count/type, textureInfo.index, asset.version - "
                "must be PRESENT, an absent one is rendered as an out-of-range value); base64 by encoding/base64",
                "payloads longer than 2600 bytes: decoded and compared with the scene's float32/byte/index image and "
                "re-computed bounds by harness/cmd/c06/payload.go (Go), not by Coq",
                "material extension values: equality classes are computed with Go's == (what PolyformMaterial.equal evaluates)"],
    "modelled": ["float64 -> float32 conversion is performed by Go and passed to the model as bit patterns",
                 "colour rounding roundFloat(c/65535, 3) is modelled in integers (thousandths)",
                 "pointer identity of meshes / materials / textures is an abstract id supplied by the harness",
                 "skins and animations are outside the property's quantifier and outside the model; material Extras are "
                 "an equality class (deep equality) supplied by the harness; the content of material-extension / light objects beyond ids, texture slots, colour, range, intensity, and "
                 "line / quad topologies are not modelled (notes/C06.md, round 4 coverage audit)"],
}


def main(argv):
    return vlib.standard_check(CFG, argv)
