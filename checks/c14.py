import vlib

CFG = {
    "id": "C14", "harness": "c14",
    "check_vo": "theories/Check/C14.vo", "prop_vo": "theories/Properties/C14.vo",
    "prop_file": "theories/Properties/C14.v",
    "theory_files": ["theories/Base/Bytes.v", "theories/Base/BytesProofs.v", "theories/Formats/Stl.v",
                     "theories/Formats/StlProofs.v", "theories/Formats/Pts.v", "theories/Formats/PtsProofs.v",
                     "theories/Formats/Splat.v", "theories/Formats/Spz.v", "theories/Formats/PlyRead.v",
                     "theories/Formats/PrefixProofs.v"],
    "level_text": "Coq theorems: every strict prefix of a valid file is rejected or yields only data present in the prefix "
                  "(binary STL, PTS at token level, .splat records; PLY/SPZ through their byte models), for every file and "
                  "every cut; tied to the code by decoding EVERY strict prefix of generated files with the real decoders "
                  "under a deadline and judging each observation with the model and with a direct oracle",
    "level_note": "Trusted: Coq kernel + vm_compute; compress/gzip and strconv outside the model; termination 'in time "
                  "proportional to the input' is observed (deadline 2 s + 1 us/byte per decode), not proved about the Go runtime",
    "technique": "Coq proof (prefix rejection by induction over records/lines) + exhaustive cut-point correspondence",
    "design_ref": "DESIGN.md §4 C14",
    "n_quick": 64, "n_thorough": 800,
    "rule": "valid files of 7 kinds (STL, PLY ascii/le/be incl. faces+UV lists, PTS 3/4/7 columns, .splat, SPZ v1/v2 "
            "degree 0-3 via an independent encoder) from random small meshes; EVERY byte cut for binary files and "
            "headers, every token boundary for ASCII bodies; distinct by file bytes; non-trivial = more than 20 cuts",
    "trusted": ["compress/gzip (SPZ) and strconv (ASCII numbers) are outside the model"],
    "modelled": ["decoders are modelled at byte level (binary) / token level (ASCII); the Go runtime's time behaviour is observed, not modelled"],
}


def main(argv):
    return vlib.standard_check(CFG, argv)
