import vlib

CFG = {
    "id": "C14", "harness": "c14",
    "check_vo": "theories/Check/C14.vo", "prop_vo": "theories/Properties/C14.vo",
    "prop_file": "theories/Properties/C14.v",
    "theory_files": ["theories/Base/Bytes.v", "theories/Base/BytesProofs.v", "theories/Formats/Stl.v",
                     "theories/Formats/StlProofs.v", "theories/Formats/Pts.v", "theories/Formats/PtsProofs.v",
                     "theories/Formats/Splat.v", "theories/Formats/Spz.v", "theories/Formats/PlyRead.v",
                     "theories/Formats/PrefixProofs.v", "theories/Formats/PrefixCost.v",
                     "theories/Formats/PrefixSurplus.v", "theories/Formats/PrefixAll.v", "theories/Formats/PrefixChunked.v",
                     "theories/Formats/PrefixBlocks.v", "theories/Formats/PrefixText.v"],
    "level_text": "Coq theorems for every file and every cut, packaged as prefix_all_formats (error, or only trailing framing cut and the identical result; .splat exactly the complete records), no_placeholder_all_formats derived from it, and reader independence (run_chunked_eq_run: a decoder written over the read-exactly-n primitive depends only on the byte sequence, for any chunking; PLY binary, STL, .splat models are such programs); per format: binary STL (every strict prefix rejected), "
                  ".splat (a k-byte prefix yields exactly the k/32 splats wholly present, error iff k mod 32 <> 0), SPZ "
                  "(every strict prefix of the inflated stream rejected; gzip as a hypothesis), PLY binary and ASCII "
                  "(threshold theorem: below the end of the promised data every cut is EOF, at or above it the identical "
                  "mesh; vertex-line token cuts; header line cuts), PTS (token level), no-placeholder corollaries and "
                  "record-read cost bounds (STL, .splat); round 4: the PLY threshold theorems for ANY MeshReader configuration, "
                  "block-wise decoding of the binary vertex element (any block sizes accept exactly what the record loop "
                  "accepts; the zero-padding variant refuted), spz.ReadHeader, ASCII bodies at BYTE level (a cut at a token "
                  "boundary of the text is the token prefix: bytes -> lines -> tokens -> mesh), the PTS lone-number-is-a-count "
                  "variant refuted; tied to the code by decoding EVERY strict prefix of generated "
                  "files with the real decoders in child processes (deadline, memory cap), each decode repeated with eight kinds of io.Reader (in-memory with Len, opaque, one-byte, half, data-with-EOF, and a file on disk through the path-taking Load entry points; the result must not depend on it), plus files past the readers' internal block thresholds (4096 / 8192 / 32768 / 65536 records, cuts sampled around block boundaries) and the other readers of the anchored files (ply.MeshReader with a caller-made configuration, spz.ReadHeader), and judging each observation "
                  "with a direct oracle (prop_ok) and against the models' decode of the same prefix (corr_ok)",
    "level_note": "Trusted: Coq kernel + vm_compute; compress/gzip (prefix-monotone inflate: hypothesis of prefix_spz, "
                  "also used by the harness to compute how much plaintext a compressed prefix yields) and strconv are "
                  "outside the model; 'time proportional to the input' is proved as a bound on record reads of the "
                  "models and observed on the Go runtime (budget: CPU time of the decoding process, 1 s + 1 us per byte and "
                  "reader kind, so that the load of the machine cannot cause an alarm; wall clock only as a 30 s inactivity "
                  "limit followed by one retry alone; RLIMIT_AS 3 GiB), not proved about the Go runtime; big files and the "
                  "auxiliary readers are judged by the direct oracle only (no model view of a megabyte of bytes)",
    "technique": "Coq proof (stream-parser combinators with a threshold invariant; induction over records/lines) + "
                 "exhaustive cut-point correspondence in capped child processes",
    "design_ref": "DESIGN.md §4 C14",
    "n_quick": 64, "n_thorough": 640,
    "rule": "valid files of 8 kinds in rotation: STL; PLY ascii/le/be through polyform's writer (point clouds, "
            "triangle meshes, +-normals, +-uchar colours, +-per-face texcoord lists, +-extra scalar); PLY through an "
            "independent encoder (float/double positions, uchar rgb/rgba, int column, tri+quad faces, uchar/uint list "
            "counts, int/uint indices, float/double texcoords, per-vertex s/t, bare-integer tokens incl. 0, all three encodings; 1/3 of the ASCII ones with surplus trailing tokens on every line); PTS 3/4/7 columns with count-like first tokens (0, 1, points still owed) on at least one line of every file; .splat; SPZ "
            "v1/v2 x SH degree 0-3 x gzip stored/default/fast via an independent encoder.  EVERY byte cut for binary "
            "files, PLY headers AND ASCII bodies / PTS (right after a separator - one or several blanks, tab -, after a sign, "
            "a decimal point, an exponent marker, inside a number, after the value, on every line; PTS values are spelled "
            "12 / 12.0 / 12. / 12e0 / 120e-1 / +12; a number cut in the middle is judged as the token it still reads as, "
            "or must be rejected if it reads as none and the reader parses that column; inside the LAST promised value of an "
            "ASCII PLY the prefix may be a valid file of its own: skipped) (stride sampling only above 1200 / 8192 "
            "cuts, last 64 always kept); every second PLY file again through a caller-configured ply.MeshReader, every SPZ "
            "file again through spz.ReadHeader; 8 big files per quick run (binary PLY cloud of 70001 vertices, PLY mesh / "
            "STL / .splat / SPZ+SH / PTS of 9001 records, ASCII PLY 4097, PTS 70001; thorough: sizes 4097..70001 for every "
            "format), 40-150 cuts each around record-block and byte-block boundaries; plus a fixed 'hostile count' stream (short file announcing 2^31 records) "
            "reported in extra and judged once known_findings.json lists c14:alloc-by-declared-count; distinct by "
            "file bytes; non-trivial = more than 20 cuts",
    "trusted": ["compress/gzip (SPZ) and strconv (ASCII numbers) are outside the model",
                "the harness' own tokenizer / inflate-length computation (independent of polyform) decides which "
                "model prefix an observation is compared with"],
    "modelled": ["decoders are modelled at byte level (binary) / token level (ASCII); the Go runtime's time and memory "
                 "behaviour is observed (deadline, address-space cap), not modelled"],
    "harness_timeout": 3000,
}


def main(argv):
    return vlib.standard_check(CFG, argv)
