import os

import vlib

def regen(rep):
    """(T) regenerate coq/gen/ParSites.v from $VERIF_REPO/modeling/*.go with tools/par2coq: Par/SitesProofs.v proves
    the partition theorem against the generated terms, so an edit of the partition arithmetic or of one call site
    changes what has to be proved."""
    rc, log = vlib.sh([os.path.join(vlib.VERIF, "bin", "regen-c10.sh")], timeout=300)
    if rc != 0:
        return False, "bin/regen-c10.sh (tools/par2coq) could not translate the parallel entry points of modeling/mesh.go:\n" + log
    return True, log


CFG = {
    "id": "C10", "harness": "c10", "pre": regen,
    "check_vo": "theories/Check/C10.vo", "prop_vo": "theories/Properties/C10.vo",
    "prop_file": "theories/Properties/C10.v",
    "theory_files": ["theories/Par/Partition.v", "theories/Par/Interleave.v", "theories/Par/ParProofs.v",
                     "theories/Par/ParExtra.v", "theories/Par/ParSequence.v", "theories/Par/FloatDiv.v",
                     "theories/Par/Sites.v", "theories/Par/SitesProofs.v", "theories/Par/ParRound4.v", "gen/ParSites.v"],
    "level_text": "Coq theorems about a model of the work partition of every *ParallelWithPoolSize entry point of "
                  "modeling.Mesh (ranges ws*i .. ws*i+ws, last worker takes the remainder), of workers as lists of atomic "
                  "steps and of executions as arbitrary interleavings of those lists: for every element count, every pool "
                  "size >= 1 and EVERY interleaving the callbacks are exactly those of the sequential scan (each index "
                  "once, with its own value), the modified array is map f xs, and no two steps of different workers "
                  "conflict; for the marching canvas: every interleaving of the per-chunk AddFieldParallel jobs (incl. "
                  "the mutex-protected chunk table) leaves every cell as the sequential AddField does, the jobs partition "
                  "the field's box, and any arrival order of the block meshes gives the triangle multiset of the "
                  "sequential March; AddFieldParallel refines AddField on the chunk table in one statement; any sequence "
                  "of add/march operations gives equal canvases after every step and equal triangle multisets at every "
                  "march whichever variants and schedules are chosen; a block march reads its +x/+y/+z neighbours (a "
                  "per-block cache is refuted); int(math.Floor(float64(n)/float64(s))) = n/s for n, s < 2^53 (Flocq binary64); "
                  "TRANSLATOR BINDING: tools/par2coq executes the seven <X>ParallelWithPoolSize methods of Mesh, their "
                  "sequential counterparts and their wrappers symbolically on every run (helpers inlined, closures "
                  "entered, if/else merged) and writes loop bounds, callback / read / write indices, panic and "
                  "delegation conditions as Gallina terms (coq/gen/ParSites.v); generated_sites_partition_exact is proved "
                  "against those terms: for every element count (incl. PrimitiveCount -1), pool size and branch "
                  "(topology) the workers visit exactly what the sequential loop visits, in bounds, callback index = "
                  "element index, nothing read is written; a pool of workers draining a job queue is an interleaving of "
                  "the jobs (pool_schedule_is_job_interleaving), so the all-interleavings theorems cover AddFieldParallel's "
                  "and marchFloat1Parallel's worker pools; a block marched once more or less changes the triangle "
                  "multiset; AddFieldParallel2 (workers compute, the caller adds the arrays in arrival order) leaves every cell as "
                  "AddField for any arrival order (addfield_collector_any_arrival_order). The model is tied to the Go code on every run: all 9 mesh entry points for ALL "
                  "n <= 40 x pool <= 20 plus sampled n up to 2e6, per-index atomic call counters and value sums, outputs "
                  "compared with the sequential entry point, with the ideal observation (direct oracle) and with the "
                  "model run on three schedules; AddField/AddFieldParallel chunk tables (read back by reflection, bitwise) "
                  "and March/MarchParallel triangle multisets on fields spanning 1, 2, 8 blocks; and the same cases are "
                  "executed by a binary built with -race (a data-race report is a violation); the attribute entry points "
                  "run on meshes of every topology with index buffers and further attributes of other lengths (everything "
                  "the entry point does not compute must come back bitwise), with 3-4 goroutines calling the same entry "
                  "point on one mesh at once, and with results read back only after later calls; canvases hold up to three "
                  "attributes (one introduced by a later field), are marched on non-default attributes through "
                  "MarchOnAttribute[Parallel], at 2 and 1/2 cubes per unit, and meshes returned by MarchParallel are "
                  "re-read after later operations",
    "level_note": "PARTIAL on 'every thread schedule': the theorems quantify over all interleavings of the MODEL's "
                  "per-element atomic steps (and of Fetch/Acc steps for the canvas); real goroutine schedules, the Go "
                  "memory model and the race detector's happens-before are runtime facts that are SAMPLED, not proved: "
                  "quick runs every mesh case once under the default scheduler and once under the -race binary "
                  "(7.4k cases) plus, under -race, one marched 2-block x 2-attribute canvas, MarchParallel over NumCPU+4 blocks, and 4 accumulation-only canvases (2, 8, 12 blocks; 34 jobs); thorough repeats every exhaustive case 12x for each "
                  "GOMAXPROCS in {1,2,16} with and without runtime.Gosched injected in the callback, under both binaries. "
                  "Race reports depend on the schedule (the getSection race below is reported in ~2 of 3 runs). "
                  "Trusted: Coq kernel + vm_compute; hand-written model tied by differential correspondence; "
                  "int(math.Floor(float64(n)/float64(s))) = n/s is proved for n, s < 2^53 from Flocq's binary64 (the two theorems "
                  "about it depend on the axioms of Coq's standard library of real numbers, all other theorems are axiom "
                  "free); marching "
                  "triangles are compared as weld-cell key triples (the rounding WeldByFloat3Attribute applies)",
    "technique": "Coq proof (induction over interleavings, permutation/NoDup arguments, per-key projection of "
                 "executions, chunk arithmetic by lia) + translator binding (symbolic execution of the Go entry points "
                 "into Gallina terms, obligations re-proved on every run) + vm_compute correspondence check + Go race "
                 "detector",
    "design_ref": "DESIGN.md §4 C10",
    "n_quick": 150, "n_thorough": 1200,
    "harness_timeout": 3300,
    "rule": "every entry point in {Scan,Modify}Float{1,2,3}AttributeParallelWithPoolSize and "
            "ScanPrimitivesParallelWithPoolSize on triangle (with trailing partial triangle) / point / line-strip "
            "(incl. the index-less strip with PrimitiveCount -1) meshes for all n in 0..40 x pool in 1..20; pool sizes "
            "0, -1, -7 (declared panic); the variants without pool size (runtime.NumCPU() workers) for n in "
            "{0,1,15,16,17,33,100}; the mesh under an attribute entry point cycles with n+s through 6 variants (point cloud "
            "with only the attribute; triangle / line strip / quad / line loop / line topology with an index buffer of "
            "unrelated length, a second attribute of the same arity one element longer or shorter and attributes of "
            "the other arities), under a primitive scan through 3 (no / two further attributes); 135 cases with 3-4 "
            "concurrent callers on one mesh (n in {0,1,7,33,64} x pool in {2,3,NumCPU}); 48 Modify cases whose result "
            "is read after two further calls on other meshes; a panic of an entry point is a failure also for n = 0; "
            "n sampled cases: 60% n in 41..160 with pool sizes up to 400 (near n, 2n, primes), "
            "40% n log-uniform in 200..2e6 with pools up to 4096 judged through a run-length summary; marching: 8 fixed "
            "canvases (1, 2, 8 blocks, negative chunk, box ending on a chunk boundary, nothing crossing the cutoff, two "
            "overlapping fields, empty canvas), 7 canvases with 2-3 attributes (marched attribute owning block (0,0,0) next "
            "to foreign blocks, attribute introduced by a later field, MarchOnAttribute[Parallel] on the 2nd/3rd "
            "attribute, on a missing attribute (declared panic in both), 2, 1/2 and 32 cubes per unit, the last with samples "
            "exactly on the cutoff), 8 canvases filled by AddFieldParallel2 instead of AddFieldParallel (1-3 Float1 "
            "functions, 1 / 2 / 8 blocks, 18 jobs for NumCPU workers, negative chunks, an empty job, 2 cubes per unit; both "
            "binaries; also as a third way of adding inside the random operation sequences), seam canvases (signed-distance spheres whose min/max along each axis lies "
            "inside, a hair inside, just short of or just across the one-cell seam between two blocks, borders -100..200, "
            "2 tripods + 3 mixed + 3 random in quick, 60 + 40 random in thorough), canvases with more jobs than the "
            "runtime.NumCPU() pool workers (a tube through NumCPU+4 surface-bearing blocks marched at GOMAXPROCS 2 and, "
            "parallel variants only, under -race; 2 x (NumCPU+1) accumulation jobs; NumCPU .. 2*NumCPU+8 blocks in "
            "thorough), operation sequences on one canvas (add, MarchParallel, edits stored on one side of a block border "
            "whose bounds begin/end exactly on it, march again with the same and another cutoff; after every march "
            "compared with a fresh sequentially built and marched canvas; 3 + 2 random in quick, 15 + 30 in thorough) "
            "+ 24 random large ones in thorough; distinct by case description; non-trivial = "
            "n >= 2 and pool >= 2 (mesh) / >= 2 blocks and >= 1 triangle (marching)",
    "trusted": ["tools/par2coq (symbolic executor for the integer code of modeling/mesh.go: its rendering of Go "
                "expressions as Gallina terms is trusted; anything it cannot follow makes it fail, and the check then "
                "reports the obligation as broken); the identification int(math.Floor(float64(a)/float64(s))) = a / s "
                "used by the translator is the Flocq theorem work_size_float64",
                "case files carry counters and value codes as primitive 63-bit integers (Uint63 literals, converted to N "
                "by Check/C10.v before anything is judged): kernel primitive, no axiom",
                "Go race detector (-race build of the same harness, GORACE=halt_on_error=0): reports are attributed to the "
                "case that was executing; absence of a report is evidence for the sampled schedules only",
                "the harness executes cases in child processes of itself so that a panic inside a worker goroutine of the "
                "code under test (which kills the process) is attributed to a case and replayable",
                "marching canvases are read back through reflect/unsafe (private fields sections, positions, float1Data)"],
    "modelled": ["goroutines = lists of atomic steps, schedules = interleavings (Par/Interleave.v); sync.WaitGroup, "
                 "channels and sync.Mutex are not modelled beyond 'a lookup-or-allocate under chunkMutex is one step'",
                 "float arithmetic of the field functions is outside the model (add : V -> V -> V arbitrary; canvases "
                 "compared bitwise by the harness)",
                 "per-block marching (marchFloat1BlockPosition) is a black box producing a well-formed block mesh; "
                 "Mesh.Append is modelled as list append with index shift"],
}


def main(argv):
    # the harness needs a second build of itself with the race detector
    ok, racebin, log = vlib.harness_build("c10", race=True, timeout=1500)
    if ok:
        CFG["extra_args"] = ["-racebin", racebin]
    else:
        tier = "thorough" if "thorough" in argv else "quick"
        rep = vlib.Report("C10", tier, int(os.environ.get("VERIF_SEED", "1") or "1"))
        rep.violation({"kind": "harness-build", "broken": "the -race build of the C10 harness failed: race detection "
                       "(part of the property) cannot run", "detail": log[-4000:]}, no_input=True)
        rep.cov.update({"obligations": 1, "discharged": 0, "checker_cmd": "go build -race", "trusted_base": vlib.BASE_TRUST})
        return rep.finish()
    return vlib.standard_check(CFG, argv)
