import os

import vlib


def regenerate(rep):
    """Binding T: re-translate math/mat, math/quaternion, math/trs, math/geometry (aabb.go) of the repository
    under test into coq/gen/{Mat,Quat,Trs,Aabb}.v before anything is built, so that the theorems are re-proved
    about what the Go code says *now*.  Files whose content did not change are left alone (make stays a no-op)."""
    rc, out = vlib.sh([os.path.join(vlib.VERIF, "bin", "regen.sh"),
                       os.path.join(vlib.VERIF, "tools", "go2coq", "specs", "c17.spec")],
                      cwd=vlib.VERIF, timeout=600)
    if rc != 0:
        return False, "go2coq could not translate the anchored functions (construct outside the subset):\n" + out[-3000:]
    return True, out


CFG = {
    "id": "C17", "harness": "c17",
    "check_vo": "theories/Check/C17.vo", "prop_vo": "theories/Properties/C17.vo",
    "prop_file": "theories/Properties/C17.v",
    "pre": regenerate,
    "theory_files": ["theories/Geom/AlgebraInst.v", "theories/Geom/AlgebraMatProofs.v",
                     "theories/Geom/AlgebraMatInvProofs.v", "theories/Geom/AlgebraQuatProofs.v",
                     "theories/Geom/AlgebraQuatRProofs.v", "theories/Geom/AlgebraTrsProofs.v", "theories/Geom/AlgebraArrayProofs.v",
                     "theories/Geom/AlgebraAabbProofs.v", "theories/Geom/AlgebraMoreProofs.v"],
    "level_text": "Coq theorems about Gallina definitions GENERATED from the Go sources on every run (tools/go2coq, one "
                  "definition per Go function, generic in the scalar type): Matrix4x4 Add entry-wise, Multiply "
                  "row-by-column, bilinear, associative, identity, Inverse (both sides, = adjugate/det, unique, involutive, "
                  "(ab)^-1 = b^-1 a^-1, undoes MulPosition of an affine matrix), Determinant = Laplace expansion and "
                  "multiplicative, MulPosition, MatFromDirs frame; quaternion Multiply = Hamilton product (associative, unit, "
                  "multiplicative norm), Rotate = sandwich product, length law, composition, linearity, conjugate undoes it; "
                  "TRS = R(S*v)+T, constructors, Translate; array-level entry points = map of the scalar one, distribute "
                  "over concatenation — all over every commutative ring / field, axiom-free; RotationTo (generic, "
                  "antiparallel incl. the x axis, parallel branches; unit in every branch, hence an isometry), Normalize, "
                  "FromTheta, AABB Contains / Encapsulate* (exact bounds, unchanged for contained points) / ClosestPoint / "
                  "Intersects / Expand / Size / Volume, NewAABBFromPoints (hand model) over the reals.  The translation is "
                  "validated on every run: the generated code evaluated over Q (vm_compute) must equal the Go result "
                  "exactly on integer/dyadic inputs (all 16x16 basis-matrix pairs for Add/Multiply; operands next to the "
                  "neutral elements: rotations by 2^-6..2^-24, translations 2^-40, scales 1+-2^-30 and 2^+-40; matrices "
                  "with bottom row (0,0,0,w), diagonal, triangular, permutation, rows/columns scaled by 2^+-40) and within "
                  "1e-9 relative on floats (1e-13 for unit quaternions of tiny angle), and the laws are re-evaluated in "
                  "exact rational arithmetic on the implementation's own outputs",
    "level_note": "Trusted: Coq kernel + vm_compute; the translator tools/go2coq and the hand-written vector prelude "
                  "Geom/Vec.v (EliCDavis/vector methods) — both exercised by the exact differential on every run; "
                  "stdlib real-number axioms under the RotationTo/FromTheta/Normalize/AABB theorems; IEEE rounding is not "
                  "modelled (real/rational semantics; float64 compared exactly where it is exact, else with tolerance); "
                  "Mesh.Rotate/Translate/Scale (loops over a struct of maps) and NewAABBFromPoints (variadic fold with Inf "
                  "sentinels) are outside the translator's subset: hand-written models (map / fold) tied by correspondence; "
                  "Quaternion.ToArr, AABB JSON methods and IntersectsRayInRange are not modelled (ToArr is compared in Go)",
    "technique": "translation Go -> Gallina + Coq proof (ring/field identities, real analysis) + vm_compute differential",
    "design_ref": "DESIGN.md §4 C17",
    "n_quick": 260, "n_thorough": 6000,
    "rule": "fixed: all 256 pairs of basis matrices E_ij,E_kl through Add+Multiply, identity plus one off-diagonal entry "
            "(2 and 2^-30) at each of the 16 positions through Determinant/Inverse/MulPosition, RotationTo on all 36 pairs "
            "of signed coordinate axes and around every numeric threshold of the translated code, the 16 pairs of "
            "quaternion units; the near-neutral / structured stream (harness/cmd/c17/neutral.go): quaternions (a*2^-k, +-1) "
            "through Rotate, Multiply (either side), TRS, constructors and the four mesh operations, unit quaternions of "
            "angle 1e-2..1e-8, translations 2^-40, scales 1+-2^-30 / 2^+-40, matrices with bottom row (0,0,0,w) "
            "(w = 2,-1,1/2,3,4,2^+-40), diagonal / translation-only / triangular / signed-permutation / I+2^-30 N / "
            "power-of-two scaled rows and columns / -0 entries, boxes grown by points 2^-30 outside or inside a face and "
            "at 2^40, nearly-unit Normalize inputs, denormal components; Min/Max/Size/Volume/Intersects/Expand and "
            "MatFromDirs; generated (13 kinds in rotation, 2/3 exact integer/dyadic, 1/3 floats): sparse and dense "
            "integer matrices, determinant +-2^k matrices (exact Inverse), float matrices with tolerance Inverse, integer / "
            "unit / arbitrary quaternions, RotationTo on random unit vectors (generic, exactly (anti)parallel, around "
            "thresholds), FromTheta with unit / non-unit / nearly-unit axes, TRS triples, meshes of 1-6 vertices through "
            "Rotate/Translate/Scale/ApplyTRS, array-level entry points on 2^k+-3 .. 70000 points with several GOMAXPROCS, "
            "boxes (incl. empty, inside-out, zero-extent, tiny) grown by points and boxes with corner/centre/random probes, "
            "ClosestPoint, NewAABBFromPoints, and a random draw from the structured stream; every kind is also judged by "
            "a float64 reference oracle inside the harness (works when the translation fails); distinct by input; "
            "non-trivial = non-zero, non-identity operands",
    "trusted": ["tools/go2coq (Go subset -> Gallina) and Geom/Vec.v (transcription of the vector2/3/4 methods used)",
                "float64 -> exact rational conversion of every observed number is done by the harness (math.Frexp)",
                "tolerances (1e-9 x magnitude; 1e-13 on the tiny-angle stream) for the float stream are computed by the harness and applied in Coq",
                "harness-side float64 reference oracles (oracle.go: entry-wise sums, row-by-column sums, Leibniz determinant, "
                "Hamilton / sandwich product, R(S*v)+T, interval membership) with tolerance 1e-14 (exact stream) / 1e-9 x sum of |terms|"],
    "modelled": ["IEEE-754 rounding is not modelled: theorems are over rings/fields/R, executions over Q",
                 "math.Sqrt/Sin/Cos/Pi over Q are 160-bit / 40-term approximations (tolerance cases only)",
                 "modeling.Mesh.Rotate/Translate/Scale: hand-written model (map over Position), correspondence only; "
                 "Mesh.ApplyTRS's Position array is the generated TransformArray",
                 "geometry.NewAABBFromPoints: hand-written fold model (AlgebraSpec.box_from_points) ending in the generated NewAABB"],
}


def main(argv):
    return vlib.standard_check(CFG, argv)
