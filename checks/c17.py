import os

import vlib


def regenerate(rep):
    """Binding T: re-translate math/mat, math/quaternion, math/trs, math/geometry (aabb.go) of the repository
    under test into coq/gen/{Mat,Quat,Trs,Aabb}.v before anything is built, so that the theorems are re-proved
    about what the Go code says *now*.  Files whose content did not change are left alone (make stays a no-op)."""
    rc, out = vlib.sh([os.path.join(vlib.VERIF, "bin", "regen.sh"),
                       os.path.join(vlib.VERIF, "tools", "go2coq", "specs", "c17.spec")],
                      cwd=vlib.VERIF, timeout=600)
    if rc != 0:
        return False, "go2coq could not translate the anchored functions (construct outside the subset):\n" + out[-3000:]
    return True, out


CFG = {
    "id": "C17", "harness": "c17",
    "check_vo": "theories/Check/C17.vo", "prop_vo": "theories/Properties/C17.vo",
    "prop_file": "theories/Properties/C17.v",
    "pre": regenerate,
    "theory_files": ["theories/Geom/AlgebraInst.v", "theories/Geom/AlgebraMatProofs.v",
                     "theories/Geom/AlgebraMatInvProofs.v", "theories/Geom/AlgebraQuatProofs.v",
                     "theories/Geom/AlgebraQuatRProofs.v", "theories/Geom/AlgebraTrsProofs.v", "theories/Geom/AlgebraArrayProofs.v",
                     "theories/Geom/AlgebraAabbProofs.v"],
    "level_text": "Coq theorems about Gallina definitions GENERATED from the Go sources on every run (tools/go2coq, one "
                  "definition per Go function, generic in the scalar type): Matrix4x4 Add entry-wise, Multiply "
                  "row-by-column, associativity, identity, Inverse (both sides, = adjugate/det), Determinant = Laplace "
                  "expansion and multiplicative, MulPosition; quaternion Multiply = Hamilton product, Rotate = sandwich "
                  "product, length law, composition, linearity; TRS = R(S*v)+T — all over every commutative ring / field, "
                  "axiom-free; RotationTo (generic, antiparallel incl. the x axis, parallel branches), FromTheta, AABB "
                  "Contains / Encapsulate* / ClosestPoint over the reals.  The translation is validated on every run: the "
                  "generated code evaluated over Q (vm_compute) must equal the Go result exactly on integer/dyadic inputs "
                  "(all 16x16 basis-matrix pairs for Add/Multiply) and within 1e-9 relative on floats, and the laws are "
                  "re-evaluated in exact rational arithmetic on the implementation's own outputs",
    "level_note": "Trusted: Coq kernel + vm_compute; the translator tools/go2coq and the hand-written vector prelude "
                  "Geom/Vec.v (EliCDavis/vector methods) — both exercised by the exact differential on every run; "
                  "stdlib real-number axioms under the RotationTo/FromTheta/AABB theorems; IEEE rounding is not modelled "
                  "(real/rational semantics; float64 compared exactly where it is exact, else with tolerance); mesh-level "
                  "Rotate/Translate/Scale/ApplyTRS are loops (not translated): modelled as map and tied by correspondence",
    "technique": "translation Go -> Gallina + Coq proof (ring/field identities, real analysis) + vm_compute differential",
    "design_ref": "DESIGN.md §4 C17",
    "n_quick": 300, "n_thorough": 6000,
    "rule": "fixed: all 256 pairs of basis matrices E_ij,E_kl through Add+Multiply, identity plus one off-diagonal entry "
            "at each of the 16 positions through Determinant/Inverse/MulPosition, RotationTo on all 36 pairs of signed "
            "coordinate axes, the 16 pairs of quaternion units; generated (10 kinds in rotation, 2/3 exact integer/dyadic, "
            "1/3 floats): sparse and dense integer matrices, matrices with determinant +-2^k (exact Inverse), integer and "
            "float matrices with tolerance Inverse, integer / unit / arbitrary quaternions (Multiply, Rotate, composition), "
            "RotationTo on random unit vectors (generic, exactly parallel, exactly antiparallel, antiparallel along axes), "
            "FromTheta with unit and non-unit axes, TRS triples, meshes of 1-6 vertices through Rotate/Translate/Scale/"
            "ApplyTRS, boxes (incl. empty and inside-out) grown by points and boxes with corner/centre/random probes, "
            "ClosestPoint with queries inside and outside; distinct by input; non-trivial = non-zero, non-identity operands",
    "trusted": ["tools/go2coq (Go subset -> Gallina) and Geom/Vec.v (transcription of the vector2/3/4 methods used)",
                "float64 -> exact rational conversion of every observed number is done by the harness (math.Frexp)",
                "tolerances (1e-9 x magnitude) for the float stream are computed by the harness and applied in Coq"],
    "modelled": ["IEEE-754 rounding is not modelled: theorems are over rings/fields/R, executions over Q",
                 "math.Sqrt/Sin/Cos/Pi over Q are 160-bit / 40-term approximations (tolerance cases only)",
                 "modeling.Mesh.Rotate/Translate/Scale/ApplyTRS: hand-written model (map over Position), correspondence only"],
}


def main(argv):
    return vlib.standard_check(CFG, argv)
