import os
import re
import shutil

import vlib


def regenerate(rep):
    """Binding T (welded box): re-translate the triangle table cubeVertIndices of modeling/primitives/cube.go of the
    repository under test into coq/gen/CubeTable.v (tools/tab2coq) before anything is built, so that the cube_table_*
    theorems are re-proved about the table the source has now."""
    rc, out = vlib.sh([os.path.join(vlib.VERIF, "bin", "regen-c18.sh")], cwd=vlib.VERIF, timeout=300)
    if rc != 0:
        return False, "tab2coq could not translate cubeVertIndices of modeling/primitives/cube.go:\n" + out[-3000:]
    race_detector(rep)
    return True, out


def race_detector(rep):
    """The concurrency stream (4-8 goroutines, each building its own parameterisation of the primitives behind a start
    barrier) once more with the harness built with -race: shared package-level state in the constructors is a data
    race the detector names directly, whether or not an interleaving corrupts a result in this run."""
    hb_ok, hbin, hlog = vlib.harness_build("c18", race=True, timeout=900)
    if not hb_ok:
        rep.notes.append("race detector: the -race build of the harness failed (%s); concurrency stream judged by its "
                         "result oracles only in this run" % hlog.strip().splitlines()[-1:])
        return
    outdir = os.path.join(vlib.BUILD, "run", "C18-race-" + rep.tier)
    shutil.rmtree(outdir, ignore_errors=True)
    os.makedirs(outdir, exist_ok=True)
    env = dict(vlib.GOENV, GORACE="halt_on_error=0 exitcode=66")
    rc, out = vlib.sh([hbin, "-seed", str(rep.seed), "-n", "1", "-out", outdir, "-tier", rep.tier, "-conc-only"],
                      cwd=vlib.VERIF, timeout=600, env=env)
    races = out.count("WARNING: DATA RACE")
    rep.notes.append("race detector: concurrency stream with -race, %d report(s)" % races)
    if races or rc == 66:
        case = {}
        try:
            cases = vlib.load_cases(outdir)
            case = cases[sorted(cases)[0]] if cases else {}
        except (OSError, ValueError):
            pass
        m = re.search(r"WARNING: DATA RACE.*?={18}", out, re.S)
        rep.violation({"kind": "property-fails-on-implementation", "case": case,
                       "oracle": "go race detector: the constructors share unsynchronised state (window of goroutines "
                                 "each building its own primitive; replay repeats the window): "
                                 + (m.group(0) if m else out)[:5000], "reports": races})
    elif rc != 0:
        rep.violation({"kind": "harness-run", "broken": "the -race build of the harness crashed or timed out",
                       "detail": out[-4000:]}, no_input=True)


CFG = {
    "id": "C18", "harness": "c18",
    "check_vo": "theories/Check/C18.vo", "prop_vo": "theories/Properties/C18.vo",
    "prop_file": "theories/Properties/C18.v",
    "pre": regenerate,
    "theory_files": ["theories/Gen/Closed.v", "theories/Gen/ClosedProofs.v", "theories/Gen/FamilyProofs.v",
                     "theories/Gen/Sphere.v", "theories/Gen/Hemisphere.v", "theories/Gen/Cylinder.v",
                     "theories/Gen/Cube.v", "theories/Gen/CylinderProofs.v", "theories/Gen/SphereProofs.v",
                     "theories/Gen/CubeProofs.v", "theories/Gen/CylinderGeom.v", "theories/Gen/SphereGeom.v", "theories/Gen/CylinderVolume.v", "theories/Gen/CylinderMono.v",
                     "theories/Gen/SphereVolume.v", "theories/Gen/HemiVolume.v", "theories/Gen/CubeClasses.v", "theories/Gen/VolumeLimits.v", "theories/Gen/CubeTableProofs.v", "theories/Gen/Solids.v", "theories/Gen/SphereDistinct.v", "theories/Gen/CylinderClasses.v", "theories/Gen/HemiDistinct.v", "theories/Gen/GenProofs.v"],
    "level_text": "Coq theorems about Gallina copies of the index-generating loops of the solid primitives (UV sphere "
                  "welded/unwelded, hemisphere, capped cylinder, welded box table, six-quad box) and their vertex "
                  "coincidence classes: well-formed indices and closed + consistently oriented surface "
                  "(every directed edge once, its reverse once) proved parametrically for EVERY rows >= 2, columns >= 3, "
                  "sides >= 3 (explicit twin involution on edge slots; no size bound); over the reals, for the WHOLE index "
                  "list with the generators' position formulas: cylinder volume = inscribed prism n*(r^2 sin(2pi/n)/2)*h, below, monotone in n and "
                  "converging to pi r^2 h with error <= 2pi^2/(3n^2) relative; sphere volume in closed form "
                  "c sin(2pi/c)(1+cos(pi/r))/3 r^3 and hemisphere volume in closed form (the ring sums telescope), both below the "
                  "analytic volume by at most pi^3 r^3 O(1/c^2 + 1/r^2) (explicit constants), sphere monotone in rows and columns, "
                  "both converging to 4/3 pi r^3 / 2/3 pi r^3 however rows and columns grow; positive, every face "
                  "outward; both boxes: exact volume w*h*d, outward faces and vertex normals, coincidence classes derived from the "
                  "real positions; the welded box's triangle table is TRANSLATED from cube.go on every run (tools/tab2coq) and "
                  "closed / well-formed / volume / outward / normals are re-proved on the translated table; the models are tied to "
                  "the Go constructors on every run (index lists and position-coincidence classes compared exactly, "
                  "closedness re-decided on the implementation's own output by the verified checker)",
    "level_note": "Trusted: Coq kernel + vm_compute (the case evaluator also uses the kernel's 63-bit machine integers for "
                  "list fingerprints); stdlib real-number axioms under the box theorems; hand-written models tied by "
                  "differential correspondence (index lists, coincidence classes); the real-valued position functions of sphere / "
                  "hemisphere / cylinder are hand copies of the Go formulas and the float positions are not modelled: the "
                  "implementation's volume (vs the same closed forms), outwardness, vertex normals and convergence are checked "
                  "numerically by the harness on every run; translator tools/tab2coq (integer table literal -> list Z) for the "
                  "cube table; the index LOOPS are not bound by translation (behaviour-preserving loop rewrites such as "
                  "harmless/C18-R2 would break a proof-level binding): they stay hand models compared exactly on every run; "
                  "the generator nodes (defaults, clamping) are not modelled: their results are judged by the property alone",
    "technique": "Coq proof (verified edge-pairing checker, involution on edge slots, exact polynomial / trigonometric identities, "
                 "Taylor bounds) + table translation Go -> Gallina + vm_compute correspondence check + float oracle",
    "design_ref": "DESIGN.md §4 C18",
    "n_quick": 60, "n_thorough": 400,
    "rule": "(rows, cols) in 2..24 x 3..24 for UVSphere, UVSphereUnwelded, Hemisphere.UV: thorough = every pair with full "
            "index + class lists; quick = every pair <= 12x12 with full lists plus one residue class of rows+cols mod 4 "
            "(chosen by the seed) and the corners of the larger pairs as two 63-bit fingerprints of both lists; every cylinder side count "
            "3..64 with all 8 UV-option combinations, both boxes with none/default/random UVs on even-integer (exact) and "
            "random positive extents, rejected parameter pairs, volume-convergence sequences, plus n sampled cases "
            "(counts up to 80x80 / 1600 sides in quick, 128x128 / 2560 sides in thorough, extreme aspect ratios, log-uniform sizes 1e-3..1e3; "
            "genuinely large counts at and just above 2^14, 2^15, 2^16 vertices for sphere/unwelded/hemisphere in square, "
            "many-rows and many-columns shapes and cylinders with 2^12..2^16 sides (fingerprints of index and class lists vs the "
            "model + harness oracles; quick: one shape per family and size, thorough: all shapes and the last size below each power of two); "
            "Cone (a lateral surface without base, not one of the solids) is only recorded); round 4: every family at sizes "
            "2^40 and 2^-40 and at 1e-9..1e9 in decades, cylinders / boxes with ratios up to 2^12 between any two dimensions "
            "(merge tolerance per axis), planks with an edge > 8x another one on every axis (exact and fractional), partial "
            "cube UV sets, UnitCube, the generator nodes UvSphereNode / HemisphereNode / CylinderNode / CubeNode with explicit "
            "inputs (judged like the constructor), with all inputs unconnected and with counts below the minimum (judged by the "
            "property alone), counts a constructor accepts although the model rejects them (judged by the property), "
            "Cylinder without caps and Circle / Quad on their own (recorded only), 1/5 of the sampled stream scaled or "
            "node-wrapped; concurrency stream: three windows of 4-8 goroutines behind a start barrier, each goroutine building "
            "its OWN parameterisation (cylinders with mixed side counts 3..3000, spheres, hemispheres, boxes, nodes) for 350 ms, "
            "every result bit-identical (indices, positions, normals) to the sequential build of the same parameters, which "
            "is judged by the same oracles; the same windows once more under the -race build (a data race report is a "
            "failure); closedness after merging is decided in Go on every case and re-decided by the verified checker "
            "wherever the lists are written out; distinct by "
            "parameters; non-trivial = the constructor returned at least one triangle",
    "trusted": ["positions of sphere/cylinder/hemisphere are math.Sin/Cos values: signed volume vs the inscribed "
                "polyhedron's closed-form volume (1e-9 relative), face orientation against an interior point, vertex "
                "normal . face normal > 0 and monotone O(1/n^2) convergence to the analytic volume are evaluated in "
                "float64 by the harness",
                "coincident positions are identified by the harness: exact equality for spheres/hemisphere/welded box; "
                "the cylinder seam + rotated bottom cap and the six rotated quads coincide only within rounding and are "
                "merged within 1e-9 of the extent of the result along each axis (checked insensitive to a 100x coarser tolerance)"],
    "modelled": ["Mesh.Append index shifting (modelled as list append with offset, checked by the correspondence)",
                 "quaternion rotations by multiples of pi/2 in Cube.UnweldedQuads are replaced by the exact maps they "
                 "stand for; the harness rounds the float corners (error < 1e-9 checked) before the exact comparison"],
}


def main(argv):
    return vlib.standard_check(CFG, argv)
