import vlib

THEORY = ["theories/Mesh/Pure.v", "theories/Mesh/PureLemmas.v", "theories/Mesh/PureProofs.v", "theories/Mesh/Case.v", "theories/Mesh/GenWf.v"]

CFG = {
    "id": "C02", "harness": "c02",
    "check_vo": "theories/Check/C02.vo", "prop_vo": "theories/Properties/C02.vo",
    "prop_file": "theories/Properties/C02.v",
    "theory_files": THEORY,
    "level_text": "Coq theorems: every operation of the pure mesh model (Mesh/Pure.v: append, unweld, remove-unreferenced, "
                  "remove-null-faces, flip, to-point-cloud, filters, crop, split, weld, repeat, set-indices/attribute/"
                  "materials under their side conditions, translate/scale/rotate/TRS/centre) maps well-formed meshes to "
                  "well-formed meshes or a declared failure, never a crash, for every input mesh and parameter, and "
                  "therefore every history of operations does (induction over the history). The model is tied to the Go "
                  "code on every run by executing the implementation on random well-formed meshes (histories of depth <= 4) "
                  "and evaluating model = implementation in Coq; the boolean well-formedness test wfb (proved equivalent to "
                  "wf) is applied directly to every mesh the implementation returns, including the output of every geometry "
                  "generator over exhaustive small and sampled larger parameterisations",
    "level_note": "Generators (primitives, extrude, repeat, marching, triangulation) are not modelled here: their outputs "
                  "are judged by the certified oracle wfb only (the primitives' index formulas are proved under C18). "
                  "Trusted: Coq kernel + vm_compute; hand-written model tied by differential correspondence only",
    "technique": "Coq proof (per-operation closure lemmas, induction over histories) + vm_compute correspondence check + "
                 "certified boolean oracle on every implementation output",
    "design_ref": "DESIGN.md §3.2, §4 C02, §5 #2",
    "n_quick": 1000, "n_thorough": 10000,
    "rule": "operation cases as for C03 (random well-formed meshes of 6 topologies, 27 operations, histories of depth 1-4, "
            "composition laws) plus generator cases: every generator over its small integer parameters (0..12, incl. "
            "degenerate and negative values) and sampled larger ones; distinct by input; non-trivial = the operation or "
            "generator returned a mesh with at least one index",
    "trusted": ["generator outputs are projected to (topology, indices, attribute names and lengths, materials); values "
                "are irrelevant to well-formedness",
                "a generator that panics on a parameterisation is counted as 'not accepted' (recorded in the distribution), "
                "as the property quantifies over accepted parameterisations"],
    "modelled": ["Go map iteration order (attribute maps are modelled as one strictly sorted association list; "
                 "AttributeLength = length of its first entry)",
                 "iter.ArrayIterator, vector2/3/4 arithmetic on integer-valued float64 (exact below 2^53)"],
}


def main(argv):
    return vlib.standard_check(CFG, argv)
