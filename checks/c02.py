import vlib

THEORY = ["theories/Mesh/Pure.v", "theories/Mesh/PureLemmas.v", "theories/Mesh/PureProofs.v", "theories/Mesh/Case.v", "theories/Mesh/GenWf.v", "theories/Mesh/GenIdx.v", "theories/Mesh/GenIdxProofs.v", "theories/Mesh/GenCompose.v", "theories/Mesh/GenIntern.v"]

CFG = {
    "id": "C02", "harness": "c02",
    "check_vo": "theories/Check/C02.vo", "prop_vo": "theories/Properties/C02.vo",
    "prop_file": "theories/Properties/C02.v",
    "theory_files": THEORY,
    "level_text": "Coq theorems: every operation of the pure mesh model (Mesh/Pure.v: append, unweld, remove-unreferenced, "
                  "remove-null-faces, flip, to-point-cloud, filters, crop, split, weld, repeat, slice-by-plane (both halves), set-indices/attribute/"
                  "materials under their side conditions, translate/scale/rotate/TRS/centre/scale-along-normal) maps well-formed meshes to "
                  "well-formed meshes or a declared failure, never a crash, for every input mesh and parameter (step_wf), and "
                  "therefore every history of operations does (run_wf, induction over the history); an earlier result is never changed by a "
                  "later operation (results_stay_wellformed: the pool only grows); wf implies every "
                  "accessor stays in range; the primitives' index formulas (sphere, unwelded sphere, hemisphere, cylinder, "
                  "cube; proved in range for every admissible count under C18) and the fan (Circle, Cone) and tube (extrude.polygon) "
                  "index models of Mesh/GenIdx.v give well-formed meshes for every count (wf_generators_primitives, "
                  "wf_generators_fan_tube, wf_generators_quad_ribbon_shape, wf_generators_composed; fan/tube/quad/ribbon/shape index lists are compared with the implementation's on every run); "
                  "marching cubes and Bowyer-Watson are modelled by the way their meshes are assembled (vertex interning per block, Append fold, weld, scale; "
                  "super-triangle clean-up: wf_generators_marching_triangulation, for every geometric decision), with the observable consequences (no unreferenced "
                  "vertex; one vertex per input point) compared on every run. "
                  "The model is tied to the Go code on every run by executing the implementation on random well-formed meshes "
                  "(histories of depth <= 4) and evaluating model = implementation in Coq; the boolean well-formedness test wfb "
                  "(proved equivalent to wf) is applied directly to every mesh the implementation returns, including the output "
                  "of every geometry generator (primitives, extrusions, repeat, marching cubes, triangulation) over fixed "
                  "corner counts, a window of the exhaustive small counts and sampled larger parameterisations",
    "level_note": "Marching-cubes and Bowyer-Watson index lists are not formulas of the parameters: their assembly is modelled (Mesh/GenIntern.v), "
                  "the geometry (which cells, which triangles) is C09's / C20's; every output is judged by the certified oracle wfb. "
                  "Retained results are re-read after later operations on the real Go values (CKeep, judged in Coq); meshes of thousands of vertices "
                  "(block limits) are judged harness-side (copy of wfb). "
                  "Trusted: Coq kernel + vm_compute; hand-written model tied by differential correspondence only",
    "technique": "Coq proof (per-operation closure lemmas, induction over histories) + vm_compute correspondence check + "
                 "certified boolean oracle on every implementation output",
    "design_ref": "DESIGN.md §3.2, §4 C02, §5 #2",
    "n_quick": 1000, "n_thorough": 10000,
    "rule": "20 local operations on a ladder of vertex counts (one rung each at 2^10+1 .. 2^15+1; thorough also 2^16+1, 2^17+1): every operation at BOTH rungs >= 2^14 and one rotating lower rung per run, topologies and call variants (function / Transformer / Mesh method / generic modifier) rotating over the rungs, tail of the vertex array referenced or not; C02 also runs 12 generators (spheres, hemisphere, cylinder, circle, cone, extrusions, repeated quads / cubes) at counts on the same ladder, two per rung, rotating; one history in 20 keeps the real mesh values of a branching history (3-7 operations on a base with spare slice capacity) and re-reads every retained value after every later operation; 22 fixed operation cases and 112 fixed generator cases (per-element optional fields set on some elements only; corner counts; every path-driven generator on collinear, one-collinear, repeated-point, closed, backtracking and axis-aligned paths; stencils of 0-3 points; triangulation of repeated, coincident, collinear and lattice point sets); generator cases (at most 260 in the quick tier): "
            "21 generators (UV sphere welded/unwelded, hemisphere, cube welded/quads, quad, circle, cylinder with/without "
            "caps and UVs, cone, extrude polygon/circle/line/shape/closed shape, repeat circle/line/Fibonacci of 5 base "
            "meshes, marching sphere/box/line through Field.March and the sequential/parallel canvas, Bowyer-Watson), a "
            "rotating window of the exhaustive counts 0..8 (thorough: all of 0..12) plus random parameterisations incl. "
            "degenerate and negative counts; the rest: operation cases as for C03 (random well-formed meshes of 6 "
            "topologies, 29 operations, histories of depth 1-4, composition laws); distinct by input; non-trivial = the "
            "operation or generator returned a mesh with at least one index",
    "trusted": ["generator outputs are projected to (topology, indices, attribute names and lengths, materials); values "
                "are irrelevant to well-formedness",
                "a generator that panics on a parameterisation outside its documented domain is counted as 'not accepted' "
                "(recorded in the distribution), as the property quantifies over accepted parameterisations; inside the "
                "documented domain (rows>=2, columns>=3, sides>=3, >=2 path points ...) a panic is a failure",
                "generator outputs above 4000 indices / 2500 vertices (thorough tier only) are judged by the harness's copy "
                "of wfb instead of being rendered as Coq literals"],
    "modelled": ["Go map iteration order (attribute maps are modelled as one strictly sorted association list; "
                 "AttributeLength = length of its first entry)",
                 "iter.ArrayIterator, vector2/3/4 arithmetic on integer-valued float64 (exact below 2^53)"],
}


def main(argv):
    return vlib.standard_check(CFG, argv)
