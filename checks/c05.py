import json
import os

import vlib

CFG = {
    "id": "C05", "harness": "c05",
    "check_vo": "theories/Check/C05.vo", "prop_vo": "theories/Properties/C05.vo",
    "prop_file": "theories/Properties/C05.v",
    "theory_files": ["theories/Base/Bytes.v", "theories/Formats/Obj.v", "theories/Formats/ObjProofs.v",
                     "theories/Formats/ObjText.v", "theories/Formats/ObjTextProofs.v",
                     "theories/Formats/ObjFiles.v", "theories/Formats/ObjFilesProofs.v"],
    "level_text": "Coq theorems about a line-record model of obj.WriteMeshes and obj.ReadMesh and a direct "
                  "(de-duplication-free) semantics of OBJ line lists: write/read round trip for every list of "
                  "well-formed meshes in any attribute / material-range mixture, reader correctness and load/save "
                  "face preservation for every valid line list; the model is tied to the Go code on every run by "
                  "evaluating it (vm_compute) on the implementation's inputs and outputs, and the implementation's "
                  "output is judged by the direct semantics; the same two clauses over bytes (text layer: ScanLines, "
                  "Fields, keyword dispatch, corner tokens; no partial theorem left) and through the file system "
                  "(obj.Save / SaveAll / Load with .mtl libraries: material names resolved by name, nil when undefined)",
    "level_note": "Trusted: Coq kernel + vm_compute; hand-written model tied by differential correspondence only "
                  "(generator quality bounds it); number text (strconv formatting/parsing, float32 rounding) is a "
                  "parameter of the Coq text layer (Formats/ObjText.v models ScanLines, Fields, keyword dispatch, corner "
                  "tokens); raw input bytes are evaluated in Coq and must give the statements the Go reader consumed",
    "technique": "Coq proof (induction over line lists / mesh lists, simulation between reader state and direct "
                 "semantics) + vm_compute correspondence check",
    "design_ref": "DESIGN.md §4 C05, §5 entries 5, 6; notes/C05.md",
    "n_quick": 256, "n_thorough": 4000,
    "rule": "stream 1: lists of 1-5 named meshes (0-5 triangles each, welded/unwelded, independent presence of "
            "normals and UVs per mesh, 0-4 material ranges incl. empty ranges, repeated and nil materials, optional "
            "mtllib, 1/14 ill-formed) through obj.WriteMeshes -> tokenizer -> obj.ReadMesh; stream 2: OBJ text from "
            "the grammar (1-5 sections, all four corner forms, uniform or mixed per group, usemtl/g in every "
            "arrangement, bare g, late v lines, comments, o/s lines, blank lines, CRLF, tabs / multiple spaces, "
            "extra w / third vt component, 1/8 corner tokens respelled (01, +1, 1//), 1/12 polygons or 2-corner "
            "faces, 1/14 invalid index (0, out of range, negative), short v/vt/vn line or bare usemtl; text layer: "
            "last statement of every kind ended by LF / CRLF / lone CR / nothing, LF-CRLF mixes, leading and "
            "trailing blanks, blank and comment lines anywhere, 65535-byte line, lines of 70 000 / 200 000 / 1.1 M "
            "bytes, UTF-8 BOM, 117 fixed endings; 1/16 corner tokens with colliding digit strings 112, 1/12, 11/2, "
            "1//12 over tables of 130/30/30 entries) through "
            "ReadMesh -> WriteMeshes -> ReadMesh; stream 3 (1/16): obj.Save -> obj.Load through the file system, and "
            "(N/16) obj.SaveAll of 1-4 named meshes -> obj.Load (groups matched by name: map order); stream 4 (N/8 + 8 "
            "fixed): OBJ text from the grammar plus hand-written .mtl files (0-3 libraries on one or several mtllib "
            "lines, before / after the faces, each defining a random part of the used names in any order, CRLF, "
            "comments, unknown statements, any run of blanks between keyword and name pieces, last newmtl "
            "unterminated, 1/12 library missing) -> obj.Load -> obj.Save "
            "(one group) or obj.SaveAll (distinct names) into a new directory tree -> obj.Load; materials reused "
            "around another one (red:2 green:1 red:3, nil included) at 1/5 of the meshes; per run one OBJ text of "
            "140-220 KiB (g / usemtl lines before every scanner refill) and a SIZE LADDER: one written scene (4 "
            "meshes, all attribute sets, ranges cut at powers of two, 2^k+1 / 3F vertices) and one read text (4 "
            "groups, v lines between faces, usemtl at 2^k) per rung of 2^10+1, 2^12+1, 2^13+1, 2^14+1, 2^15+1 faces "
            "(2^16+1 in thorough), judged harness-side by an exact Go re-implementation of the direct semantics "
            "(GoFail), the 1025-face scene and a 257-face ladder text also evaluated in Coq; distinct by input; non-trivial = at least one triangle and the first "
            "operation succeeded",
    "trusted": ["strconv.AppendFloat(…,'f',-1,64) followed by ParseFloat(…,32) yields float32(x) (false only at "
                "exact float32 midpoints; generators do not produce them)",
                "strings.Fields / bufio.ScanLines are modelled in Coq on ASCII white space (Formats/ObjText.v) and "
                "reproduced by the harness tokenizer; texts up to 2500 bytes are evaluated in Coq from their bytes, "
                "larger ones (incl. lines over 64 KiB and texts over several scanner buffers) as line records",
                "a .mtl file is the list of its newmtl names (colours, textures, Ns are outside the property and not "
                "compared); the harness finds them with its own line/field splitter",
                "the comparison model <-> implementation is on observables (validity + direct meaning of a text, "
                "group observations + well-formedness of a read result), not on vertex numbering or line order; "
                "the text written for an ill-formed mesh list is compared by error class only",
                "size ladder (ladder.go): Go re-implementation of file_groups / obs / obs_written, tied to the Gallina "
                "definitions only through the bottom-rung cases that are also evaluated in Coq"],
    "modelled": ["obj.WriteMeshes, obj.WriteMesh (line records, v/vt/vn offsets, g rule, material ranges)",
                 "obj.ReadMesh (tables, per-group corner table keyed by token text, material range counting, only the "
                 "first three corners of an f line, index 0 = absent for vt/vn, error classes Declared / Crash)",
                 "obj.Load / obj.Save / obj.SaveAll (Formats/ObjFiles.v: mtllib names opened next to the .obj, missing "
                 "file = declared error, loadedMaterials[name] or nil per range; .mtl written iff some mesh has ranges, "
                 "one newmtl per written name); ReadMaterials / WriteMaterials only as the names they define",
                 "text layer on bytes (Formats/ObjText.v): ScanLines, TrimSpace/Fields, keyword dispatch, "
                 "parseObjFaceComponent shapes, what WriteMeshes prints"],
}


LONG_LINE_KEY = "obj:line-over-64KiB"


def _long_lines_enabled():
    """Legal lines longer than bufio.Scanner's 64 KiB token make HEAD's ReadMesh fail (finding, repair proposed in
    fixes/C05-obj-long-lines.patch).  They are generated once known_findings.json lists the key (status known:
    reported as KNOWN-FINDING; status fixed: the repaired reader must take them), or on request."""
    if os.environ.get("C05_LONGLINES"):
        return True
    try:
        data = json.load(open(os.path.join(vlib.VERIF, "known_findings.json")))
        return any(e.get("key") == LONG_LINE_KEY for e in data.get("findings", []))
    except Exception:
        return False


def main(argv):
    cfg = dict(CFG)
    if _long_lines_enabled():
        cfg["extra_args"] = ["-longlines"]
    return vlib.standard_check(cfg, argv)
