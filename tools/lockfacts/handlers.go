// Handler facts (property C13, HTTP layer): for every function and function literal of the edit server's files
// (generator/app_server.go, generator/app_server_parameter.go) and of the package functions they call, that reaches
// an entry point of graph.Instance -- a call <expr>.UpdateParameter(..) / <expr>.ParameterData(..) /
// <expr>.Artifact(..), directly or through calls of package functions / methods / local function literals (by
// name) -- or that reaches parameter state without them (.ApplyMessage / .ToMessage):
//
//	hf_entry_calls     the entry points reached, one per call site
//	hf_bypass          number of bypassing calls
//	hf_gos             go statements
//	hf_chan_ops        channel sends / receives / select / close(..) / make(chan ..)
//	hf_sync_mentions   uses of package sync or sync/atomic
//	hf_shared          state that outlives the request and that the function may change: fields of its receiver,
//	                   package-level variables and captured locals of the enclosing function (other than its
//	                   parameters and local function literals) that are assigned, inc/decremented, deleted from,
//	                   indexed, have their address taken or have a method called on them (unknown effect) -- the
//	                   entry-point call itself, calls of package functions (analysed themselves) and calls of other
//	                   methods of graph.Instance (by name; their discipline is the subject of the lock facts) excepted
//
// Purely syntactic (go/parser + identifier resolution of go/ast).
package main

import (
	"bytes"
	"fmt"
	"go/ast"
	"go/parser"
	"go/token"
	"path/filepath"
	"sort"
	"strings"
)

var entryNames = map[string]bool{"UpdateParameter": true, "ParameterData": true, "Artifact": true}
var bypassNames = map[string]bool{"ApplyMessage": true, "ToMessage": true}

type unit struct {
	name     string
	file     string
	body     *ast.BlockStmt
	recv     *ast.Object            // receiver variable (methods)
	params   map[*ast.Object]bool   // own parameters (and receiver)
	encl     *unit                  // enclosing unit (function literals)
	locals   map[*ast.Object]*unit  // locals bound to a function literal: x := func..
	lits     map[*ast.FuncLit]*unit // directly nested literals
	own      []string               // own entry calls
	calls    []string               // package-level callees (by name), one per call site
	litCalls []*unit                // calls of local function literals
	bypass   int
	gos      int
	chanOps  int
	syncs    int
	shared   map[string]bool
}

func paramObjs(ft *ast.FuncType, recv *ast.FieldList) map[*ast.Object]bool {
	out := map[*ast.Object]bool{}
	add := func(fl *ast.FieldList) {
		if fl == nil {
			return
		}
		for _, f := range fl.List {
			for _, n := range f.Names {
				if n.Obj != nil {
					out[n.Obj] = true
				}
			}
		}
	}
	add(recv)
	add(ft.Params)
	add(ft.Results)
	return out
}

// rootIdent strips selectors / indexes / stars / parens / slices / calls and returns the identifier at the root
func rootIdent(e ast.Expr) *ast.Ident {
	for {
		switch x := e.(type) {
		case *ast.Ident:
			return x
		case *ast.SelectorExpr:
			e = x.X
		case *ast.IndexExpr:
			e = x.X
		case *ast.StarExpr:
			e = x.X
		case *ast.ParenExpr:
			e = x.X
		case *ast.SliceExpr:
			e = x.X
		case *ast.CallExpr:
			e = x.Fun
		case *ast.TypeAssertExpr:
			e = x.X
		default:
			return nil
		}
	}
}

// firstField: for an expression rooted at the receiver r (r.f.g.h...), the field f
func firstField(e ast.Expr, recv *ast.Object) (string, bool) {
	var last string
	for {
		switch x := e.(type) {
		case *ast.Ident:
			if x.Obj == recv && recv != nil && last != "" {
				return last, true
			}
			return "", false
		case *ast.SelectorExpr:
			last = x.Sel.Name
			e = x.X
		case *ast.IndexExpr:
			e = x.X
		case *ast.StarExpr:
			e = x.X
		case *ast.ParenExpr:
			e = x.X
		case *ast.SliceExpr:
			e = x.X
		case *ast.CallExpr:
			e = x.Fun
		default:
			return "", false
		}
	}
}

type hctx struct {
	instMethods map[string]bool    // method names of graph.Instance
	pkgFuncs    map[string][]*unit // package-level functions and methods by name
	pkgVars     map[*ast.Object]bool
	syncNames   map[string]map[string]bool // file -> local names of sync / sync/atomic
	allUnits    []*unit
}

// declaredIn: is obj declared inside the body of u (not in a nested literal's parameter list)?
func within(pos token.Pos, n ast.Node) bool { return n != nil && n.Pos() <= pos && pos < n.End() }

func (h *hctx) analyse(u *unit) {
	u.shared = map[string]bool{}
	syncs := h.syncNames[u.file]
	// what kind of state does an expression's root refer to?  "" = request-local
	sharedName := func(e ast.Expr) string {
		if f, ok := firstField(e, u.recv); ok {
			return f
		}
		id := rootIdent(e)
		if id == nil || id.Obj == nil {
			return ""
		}
		if h.pkgVars[id.Obj] {
			return id.Name
		}
		if id.Obj.Kind != ast.Var {
			return ""
		}
		// captured from an enclosing unit?
		for enc := u.encl; enc != nil; enc = enc.encl {
			if enc.params[id.Obj] {
				return "" // a parameter of the enclosing function: fixed when the handler was built
			}
			if _, isLit := enc.locals[id.Obj]; isLit {
				return ""
			}
			if within(id.Obj.Pos(), enc.body) && !within(id.Obj.Pos(), u.body) {
				return id.Name
			}
		}
		return ""
	}
	mark := func(e ast.Expr) {
		if n := sharedName(e); n != "" {
			u.shared[n] = true
		}
	}
	var walk func(n ast.Node) bool
	walk = func(n ast.Node) bool {
		switch x := n.(type) {
		case *ast.FuncLit:
			if x.Body != u.body {
				return false // a nested literal is its own unit
			}
		case *ast.GoStmt:
			u.gos++
		case *ast.SendStmt:
			u.chanOps++
		case *ast.SelectStmt:
			u.chanOps++
		case *ast.UnaryExpr:
			if x.Op == token.ARROW {
				u.chanOps++
			}
			if x.Op == token.AND {
				mark(x.X)
			}
		case *ast.AssignStmt:
			if x.Tok != token.DEFINE {
				for _, l := range x.Lhs {
					mark(l)
				}
			}
		case *ast.IncDecStmt:
			mark(x.X)
		case *ast.IndexExpr:
			mark(x.X)
		case *ast.SelectorExpr:
			if id, ok := x.X.(*ast.Ident); ok && id.Obj == nil && syncs[id.Name] {
				u.syncs++
			}
		case *ast.CallExpr:
			switch f := x.Fun.(type) {
			case *ast.Ident:
				switch {
				case f.Obj == nil && f.Name == "close":
					u.chanOps++
				case f.Obj == nil && f.Name == "delete" && len(x.Args) > 0:
					mark(x.Args[0])
				case f.Obj == nil && f.Name == "make" && len(x.Args) > 0:
					if _, ok := x.Args[0].(*ast.ChanType); ok {
						u.chanOps++
					}
				case f.Obj != nil && f.Obj.Kind == ast.Fun:
					u.calls = append(u.calls, f.Name)
				case f.Obj != nil && f.Obj.Kind == ast.Var:
					// a local function value
					found := false
					for enc := u; enc != nil && !found; enc = enc.encl {
						if lu, ok := enc.locals[f.Obj]; ok {
							u.litCalls = append(u.litCalls, lu)
							found = true
						}
					}
				}
			case *ast.SelectorExpr:
				name := f.Sel.Name
				switch {
				case entryNames[name]:
					u.own = append(u.own, name)
				case bypassNames[name]:
					u.bypass++
				default:
					if id, ok := f.X.(*ast.Ident); ok && id.Obj == nil {
						break // qualified call of another package
					}
					if _, inPkg := h.pkgFuncs[name]; inPkg {
						u.calls = append(u.calls, name) // a method of this package (by name): analysed itself
					} else if h.instMethods[name] {
						// another method of graph.Instance
					} else {
						mark(f.X) // method call on some state: unknown effect
					}
				}
			}
		}
		return true
	}
	ast.Inspect(u.body, walk)
}

// units of one function declaration (itself + nested literals)
func (h *hctx) unitsOf(file string, name string, ft *ast.FuncType, recvFL *ast.FieldList, body *ast.BlockStmt, encl *unit) *unit {
	u := &unit{name: name, file: file, body: body, params: paramObjs(ft, recvFL), encl: encl,
		locals: map[*ast.Object]*unit{}, lits: map[*ast.FuncLit]*unit{}}
	if recvFL != nil && len(recvFL.List) == 1 && len(recvFL.List[0].Names) == 1 {
		u.recv = recvFL.List[0].Names[0].Obj
	}
	if encl != nil {
		u.recv = encl.recv
	}
	h.allUnits = append(h.allUnits, u)
	k := 0
	var visit func(n ast.Node) bool
	visit = func(n ast.Node) bool {
		if as, ok := n.(*ast.AssignStmt); ok && len(as.Lhs) == len(as.Rhs) {
			for i, r := range as.Rhs {
				if fl, ok := r.(*ast.FuncLit); ok {
					if id, ok := as.Lhs[i].(*ast.Ident); ok && id.Obj != nil {
						k++
						lu := h.unitsOf(file, fmt.Sprintf("%s.%s", name, id.Name), fl.Type, nil, fl.Body, u)
						u.locals[id.Obj] = lu
						u.lits[fl] = lu
					}
				}
			}
		}
		if fl, ok := n.(*ast.FuncLit); ok {
			if _, done := u.lits[fl]; !done {
				k++
				u.lits[fl] = h.unitsOf(file, fmt.Sprintf("%s.func%d", name, k), fl.Type, nil, fl.Body, u)
			}
			return false
		}
		return true
	}
	ast.Inspect(body, visit)
	return u
}

func handlerFacts(repo string, instMethods map[string]bool) (string, error) {
	dir := filepath.Join(repo, "generator")
	matches, err := filepath.Glob(filepath.Join(dir, "*.go"))
	if err != nil {
		return "", err
	}
	sort.Strings(matches)
	fset := token.NewFileSet()
	h := &hctx{instMethods: instMethods, pkgFuncs: map[string][]*unit{}, pkgVars: map[*ast.Object]bool{}, syncNames: map[string]map[string]bool{}}
	anchored := map[string]bool{"app_server.go": true, "app_server_parameter.go": true}
	var files []*ast.File
	var names []string
	for _, m := range matches {
		if strings.HasSuffix(m, "_test.go") || strings.HasSuffix(m, "_wasm.go") {
			continue
		}
		f, err := parser.ParseFile(fset, m, nil, 0)
		if err != nil {
			return "", err
		}
		files = append(files, f)
		names = append(names, filepath.Base(m))
	}
	if len(files) == 0 {
		return "", fmt.Errorf("no Go files in %s", dir)
	}
	// identifiers of other files of the package are unresolved after parsing single files: resolve package scope
	pkgScope := map[string]*ast.Object{}
	for _, f := range files {
		for n, o := range f.Scope.Objects {
			pkgScope[n] = o
		}
	}
	for _, f := range files {
		for _, id := range f.Unresolved {
			if o, ok := pkgScope[id.Name]; ok {
				id.Obj = o
			}
		}
	}
	for i, f := range files {
		sn := map[string]bool{}
		for _, im := range f.Imports {
			p := strings.Trim(im.Path.Value, "\"")
			if p == "sync" || p == "sync/atomic" {
				n := filepath.Base(p)
				if im.Name != nil {
					n = im.Name.Name
				}
				sn[n] = true
			}
		}
		h.syncNames[names[i]] = sn
		for _, d := range f.Decls {
			switch x := d.(type) {
			case *ast.GenDecl:
				if x.Tok == token.VAR {
					for _, sp := range x.Specs {
						for _, n := range sp.(*ast.ValueSpec).Names {
							if n.Obj != nil {
								h.pkgVars[n.Obj] = true
							}
						}
					}
				}
			case *ast.FuncDecl:
				if x.Body == nil {
					continue
				}
				u := h.unitsOf(names[i], x.Name.Name, x.Type, x.Recv, x.Body, nil)
				h.pkgFuncs[x.Name.Name] = append(h.pkgFuncs[x.Name.Name], u)
			}
		}
	}
	for _, u := range h.allUnits {
		h.analyse(u)
	}
	// effective entry calls: own ++ those of every callee (package functions by name, local literals), per call site
	memo := map[*unit][]string{}
	var eff func(u *unit, depth int) []string
	eff = func(u *unit, depth int) []string {
		if v, ok := memo[u]; ok {
			return v
		}
		if depth > 12 {
			return nil
		}
		memo[u] = nil // recursion guard
		out := append([]string{}, u.own...)
		for _, c := range u.calls {
			for _, cu := range h.pkgFuncs[c] {
				out = append(out, eff(cu, depth+1)...)
			}
		}
		for _, lu := range u.litCalls {
			out = append(out, eff(lu, depth+1)...)
		}
		memo[u] = out
		return out
	}
	// reported: units of the anchored files, and package functions reachable from them, that reach an entry point
	reach := map[*unit]bool{}
	var grow func(u *unit)
	grow = func(u *unit) {
		if reach[u] {
			return
		}
		reach[u] = true
		for _, c := range u.calls {
			for _, cu := range h.pkgFuncs[c] {
				grow(cu)
			}
		}
		for _, lu := range u.litCalls {
			grow(lu)
		}
		for _, lu := range u.lits {
			grow(lu)
		}
	}
	for _, u := range h.allUnits {
		if anchored[u.file] {
			grow(u)
		}
	}
	var b bytes.Buffer
	fmt.Fprintf(&b, "\n(* handler facts: functions of generator/app_server.go, generator/app_server_parameter.go (and the package\n")
	fmt.Fprintf(&b, "   functions they call) that reach an entry point of graph.Instance -- see tools/lockfacts/handlers.go *)\n")
	fmt.Fprintf(&b, "Definition handlers : list hfacts := [")
	first := true
	for _, u := range h.allUnits {
		if !reach[u] {
			continue
		}
		e := eff(u, 0)
		if len(e) == 0 && u.bypass == 0 {
			continue
		}
		if !first {
			fmt.Fprintf(&b, ";")
		}
		first = false
		var sh []string
		for k := range u.shared {
			sh = append(sh, k)
		}
		sort.Strings(sh)
		fmt.Fprintf(&b, "\n  {| hf_name := %s; hf_entry_calls := %s; hf_bypass := %d; hf_gos := %d; hf_chan_ops := %d;\n",
			coqStr(u.file+":"+u.name), coqStrs(e), u.bypass, u.gos, u.chanOps)
		fmt.Fprintf(&b, "     hf_sync_mentions := %d; hf_shared := %s |}", u.syncs, coqStrs(sh))
	}
	fmt.Fprintf(&b, "\n].\n")
	return b.String(), nil
}
