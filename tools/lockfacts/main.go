// lockfacts: extracts, from generator/graph/instance.go, the *lock facts* of every method of
// graph.Instance and writes them as a Coq file (coq/gen/LockFacts.v) for Graph/Lock.v (property C13).
//
// Purely syntactic (go/parser + go/ast, no type checking).  Per method with receiver `r *Instance`:
//   - which top-level statement is exactly `r.<mutex>.Lock()` and which is `defer r.<mutex>.Unlock()`
//   - how often the mutex field is mentioned at all (an explicit Unlock, a second Lock, TryLock, ...
//     all show up as extra mentions), how many defer / go statements and function literals the body has
//   - for the statements *before* the lock (all statements when there is no lock): their kinds, the
//     receiver fields read / written, receiver methods called, other callees, bare uses of the receiver
//   - for the whole body: receiver fields read / written and receiver methods called (the Coq side closes
//     these transitively to obtain the set of fields written inside the critical sections)
//
// "written" is conservative: assignment / inc-dec target rooted at r.f, delete(r.f, ..), &r.f, or a
// method call on r.f (unknown effect).  Every other mention of r.f is a read.
package main

import (
	"bytes"
	"flag"
	"fmt"
	"go/ast"
	"go/parser"
	"go/token"
	"os"
	"path/filepath"
	"sort"
	"strings"
)

type facts struct {
	Name                                   string
	NStmts                                 int
	LockAt, DeferUnlockAt                  int // -1: none
	LockMentions, Defers, Gos, FuncLits    int
	Escapes, PreEscapes                    int
	PreKinds                               []string
	PreReads, PreWrites, PreSelf, PreCalls []string
	Reads, Writes, Self                    []string
}

type ctx struct {
	recv    string
	fields  map[string]bool
	locks   map[string]bool
	methods map[string]bool
}

// recvField returns f when e is `recv.f` with f a struct field.
func (c *ctx) recvField(e ast.Expr) (string, bool) {
	s, ok := e.(*ast.SelectorExpr)
	if !ok {
		return "", false
	}
	id, ok := s.X.(*ast.Ident)
	if !ok || id.Name != c.recv || c.recv == "" {
		return "", false
	}
	if c.fields[s.Sel.Name] {
		return s.Sel.Name, true
	}
	return "", false
}

// rootField strips index / selector / star / paren / slice wrappers and returns the receiver field at the root.
func (c *ctx) rootField(e ast.Expr) (string, bool) {
	for {
		if f, ok := c.recvField(e); ok {
			return f, true
		}
		switch x := e.(type) {
		case *ast.IndexExpr:
			e = x.X
		case *ast.SelectorExpr:
			e = x.X
		case *ast.StarExpr:
			e = x.X
		case *ast.ParenExpr:
			e = x.X
		case *ast.SliceExpr:
			e = x.X
		default:
			return "", false
		}
	}
}

// lockOp: e is the call `recv.<lock>.<op>()`.
func (c *ctx) lockOp(e ast.Expr) (string, bool) {
	call, ok := e.(*ast.CallExpr)
	if !ok || len(call.Args) != 0 {
		return "", false
	}
	s, ok := call.Fun.(*ast.SelectorExpr)
	if !ok {
		return "", false
	}
	f, ok := c.recvField(s.X)
	if !ok || !c.locks[f] {
		return "", false
	}
	return s.Sel.Name, true
}

func render(e ast.Expr) string {
	switch x := e.(type) {
	case *ast.Ident:
		return x.Name
	case *ast.SelectorExpr:
		return render(x.X) + "." + x.Sel.Name
	case *ast.ParenExpr:
		return render(x.X)
	case *ast.IndexExpr: // generic instantiation f[T]
		return render(x.X)
	case *ast.IndexListExpr:
		return render(x.X)
	case *ast.CallExpr:
		return render(x.Fun) + "()"
	default:
		return "<expr>"
	}
}

type acc struct {
	reads, writes, self, calls map[string]bool
	escapes                    int
}

func newAcc() *acc {
	return &acc{map[string]bool{}, map[string]bool{}, map[string]bool{}, map[string]bool{}, 0}
}

// scan collects the accesses of one statement (or any node).
func (c *ctx) scan(n ast.Node, a *acc) {
	written := map[ast.Expr]bool{}     // selector nodes recv.f that are write targets
	selectorX := map[*ast.Ident]bool{} // receiver idents that are the X of a selector
	markWrite := func(e ast.Expr) {
		if f, ok := c.rootField(e); ok {
			a.writes[f] = true
			// remember the innermost recv.f node so that it is not also counted as a read
			for {
				if _, ok := c.recvField(e); ok {
					written[e] = true
					return
				}
				switch x := e.(type) {
				case *ast.IndexExpr:
					e = x.X
				case *ast.SelectorExpr:
					e = x.X
				case *ast.StarExpr:
					e = x.X
				case *ast.ParenExpr:
					e = x.X
				case *ast.SliceExpr:
					e = x.X
				default:
					return
				}
			}
		}
	}
	ast.Inspect(n, func(n ast.Node) bool {
		switch x := n.(type) {
		case *ast.AssignStmt:
			if x.Tok != token.DEFINE {
				for _, l := range x.Lhs {
					markWrite(l)
				}
			}
		case *ast.IncDecStmt:
			markWrite(x.X)
		case *ast.UnaryExpr:
			if x.Op == token.AND {
				markWrite(x.X)
			}
		case *ast.RangeStmt:
			if x.Tok == token.ASSIGN {
				if x.Key != nil {
					markWrite(x.Key)
				}
				if x.Value != nil {
					markWrite(x.Value)
				}
			}
		case *ast.CallExpr:
			if _, ok := c.lockOp(x); ok {
				return true
			}
			if id, ok := x.Fun.(*ast.Ident); ok && id.Name == "delete" && len(x.Args) > 0 {
				markWrite(x.Args[0])
			}
			if s, ok := x.Fun.(*ast.SelectorExpr); ok {
				if id, ok := s.X.(*ast.Ident); ok && id.Name == c.recv && c.recv != "" && !c.fields[s.Sel.Name] {
					a.self[s.Sel.Name] = true // r.method(...)
					return true
				}
				if f, ok := c.rootField(s.X); ok && !c.locks[f] {
					markWrite(s.X) // method call on a field: unknown effect
					a.reads[f] = true
				}
			}
			a.calls[render(x.Fun)] = true
		case *ast.SelectorExpr:
			if id, ok := x.X.(*ast.Ident); ok && id.Name == c.recv && c.recv != "" {
				selectorX[id] = true
				if c.fields[x.Sel.Name] {
					if !c.locks[x.Sel.Name] && !written[x] {
						a.reads[x.Sel.Name] = true
					}
				} else {
					a.self[x.Sel.Name] = true // method value or call
				}
			}
		case *ast.Ident:
			if x.Name == c.recv && c.recv != "" && !selectorX[x] {
				a.escapes++
			}
		}
		return true
	})
}

func keys(m map[string]bool) []string {
	out := make([]string, 0, len(m))
	for k := range m {
		out = append(out, k)
	}
	sort.Strings(out)
	return out
}

func kind(s ast.Stmt) string {
	switch x := s.(type) {
	case *ast.AssignStmt:
		if x.Tok == token.DEFINE {
			return "define"
		}
		return "assign"
	case *ast.IfStmt:
		return "if"
	case *ast.ExprStmt:
		return "expr"
	case *ast.DeferStmt:
		return "defer"
	case *ast.GoStmt:
		return "go"
	case *ast.ReturnStmt:
		return "return"
	case *ast.ForStmt:
		return "for"
	case *ast.RangeStmt:
		return "range"
	case *ast.DeclStmt:
		return "decl"
	case *ast.IncDecStmt:
		return "incdec"
	case *ast.SwitchStmt, *ast.TypeSwitchStmt:
		return "switch"
	case *ast.BlockStmt:
		return "block"
	default:
		return "other"
	}
}

func (c *ctx) analyse(fd *ast.FuncDecl) facts {
	f := facts{Name: fd.Name.Name, LockAt: -1, DeferUnlockAt: -1}
	if fd.Body == nil {
		return f
	}
	stmts := fd.Body.List
	f.NStmts = len(stmts)
	for k, s := range stmts {
		if es, ok := s.(*ast.ExprStmt); ok && f.LockAt < 0 {
			if op, ok := c.lockOp(es.X); ok && op == "Lock" {
				f.LockAt = k
			}
		}
		if ds, ok := s.(*ast.DeferStmt); ok && f.DeferUnlockAt < 0 {
			if op, ok := c.lockOp(ds.Call); ok && op == "Unlock" {
				f.DeferUnlockAt = k
			}
		}
	}
	ast.Inspect(fd.Body, func(n ast.Node) bool {
		switch x := n.(type) {
		case *ast.DeferStmt:
			f.Defers++
		case *ast.GoStmt:
			f.Gos++
		case *ast.FuncLit:
			f.FuncLits++
		case *ast.SelectorExpr:
			if fl, ok := c.recvField(x); ok && c.locks[fl] {
				f.LockMentions++
			}
		}
		return true
	})
	whole := newAcc()
	c.scan(fd.Body, whole)
	f.Reads, f.Writes, f.Self, f.Escapes = keys(whole.reads), keys(whole.writes), keys(whole.self), whole.escapes
	pre := newAcc()
	end := len(stmts)
	if f.LockAt >= 0 {
		end = f.LockAt
	}
	for _, s := range stmts[:end] {
		f.PreKinds = append(f.PreKinds, kind(s))
		c.scan(s, pre)
	}
	f.PreReads, f.PreWrites, f.PreSelf, f.PreCalls, f.PreEscapes =
		keys(pre.reads), keys(pre.writes), keys(pre.self), keys(pre.calls), pre.escapes
	return f
}

func coqStr(s string) string { return "\"" + strings.ReplaceAll(s, "\"", "\"\"") + "\"" }
func coqStrs(xs []string) string {
	q := make([]string, len(xs))
	for i, x := range xs {
		q[i] = coqStr(x)
	}
	return "[" + strings.Join(q, "; ") + "]"
}
func coqOptNat(k int) string {
	if k < 0 {
		return "None"
	}
	return fmt.Sprintf("(Some %d)", k)
}

func main() {
	repo := flag.String("repo", "/repo", "polyform working tree")
	rel := flag.String("file", "generator/graph/instance.go", "file with the Instance type, relative to -repo")
	typ := flag.String("type", "Instance", "receiver type")
	out := flag.String("o", "", "output .v file (written only when the content changes); empty: stdout")
	flag.Parse()

	fset := token.NewFileSet()
	file, err := parser.ParseFile(fset, filepath.Join(*repo, *rel), nil, 0)
	if err != nil {
		fmt.Fprintln(os.Stderr, "lockfacts:", err)
		os.Exit(1)
	}
	c := &ctx{fields: map[string]bool{}, locks: map[string]bool{}, methods: map[string]bool{}}
	var fieldOrder, lockOrder []string
	// struct fields; mutex fields are those whose type is <pkg>.Mutex / <pkg>.RWMutex (or a pointer to one)
	for _, d := range file.Decls {
		gd, ok := d.(*ast.GenDecl)
		if !ok {
			continue
		}
		for _, sp := range gd.Specs {
			ts, ok := sp.(*ast.TypeSpec)
			if !ok || ts.Name.Name != *typ {
				continue
			}
			st, ok := ts.Type.(*ast.StructType)
			if !ok {
				continue
			}
			for _, fl := range st.Fields.List {
				t := fl.Type
				if p, ok := t.(*ast.StarExpr); ok {
					t = p.X
				}
				isLock := false
				if s, ok := t.(*ast.SelectorExpr); ok && (s.Sel.Name == "Mutex" || s.Sel.Name == "RWMutex") {
					isLock = true
				}
				for _, nm := range fl.Names {
					c.fields[nm.Name] = true
					fieldOrder = append(fieldOrder, nm.Name)
					if isLock {
						c.locks[nm.Name] = true
						lockOrder = append(lockOrder, nm.Name)
					}
				}
			}
		}
	}
	recvOf := func(fd *ast.FuncDecl) (string, bool) {
		if fd.Recv == nil || len(fd.Recv.List) != 1 {
			return "", false
		}
		t := fd.Recv.List[0].Type
		if p, ok := t.(*ast.StarExpr); ok {
			t = p.X
		}
		id, ok := t.(*ast.Ident)
		if !ok || id.Name != *typ {
			return "", false
		}
		if len(fd.Recv.List[0].Names) == 1 {
			return fd.Recv.List[0].Names[0].Name, true
		}
		return "", true
	}
	for _, d := range file.Decls {
		if fd, ok := d.(*ast.FuncDecl); ok {
			if _, ok := recvOf(fd); ok {
				c.methods[fd.Name.Name] = true
			}
		}
	}
	var all []facts
	for _, d := range file.Decls {
		fd, ok := d.(*ast.FuncDecl)
		if !ok {
			continue
		}
		r, ok := recvOf(fd)
		if !ok {
			continue
		}
		c.recv = r
		if r == "_" {
			c.recv = ""
		}
		all = append(all, c.analyse(fd))
	}

	var b bytes.Buffer
	fmt.Fprintf(&b, "(* GENERATED by tools/lockfacts from %s (type %s) -- do not edit.\n", *rel, *typ)
	fmt.Fprintf(&b, "   Regenerated by bin/regen-c13.sh on every `bin/check C13` run; Properties/C13.v proves\n")
	fmt.Fprintf(&b, "   lock_facts_ok on this file by computation. *)\n")
	fmt.Fprintf(&b, "From Coq Require Import List String.\nFrom PF Require Import Graph.Lock.\nImport ListNotations.\nOpen Scope string_scope.\n\n")
	fmt.Fprintf(&b, "Definition struct_fields : list string := %s.\n", coqStrs(fieldOrder))
	fmt.Fprintf(&b, "Definition lock_fields : list string := %s.\n\n", coqStrs(lockOrder))
	fmt.Fprintf(&b, "Definition facts : list mfacts := [\n")
	for k, f := range all {
		if k > 0 {
			fmt.Fprintf(&b, ";\n")
		}
		fmt.Fprintf(&b, "  {| mf_name := %s; mf_nstmts := %d;\n", coqStr(f.Name), f.NStmts)
		fmt.Fprintf(&b, "     mf_lock_at := %s; mf_defer_unlock_at := %s; mf_lock_mentions := %d;\n",
			coqOptNat(f.LockAt), coqOptNat(f.DeferUnlockAt), f.LockMentions)
		fmt.Fprintf(&b, "     mf_defers := %d; mf_gos := %d; mf_funclits := %d; mf_escapes := %d; mf_pre_escapes := %d;\n",
			f.Defers, f.Gos, f.FuncLits, f.Escapes, f.PreEscapes)
		fmt.Fprintf(&b, "     mf_pre_kinds := %s;\n", coqStrs(f.PreKinds))
		fmt.Fprintf(&b, "     mf_pre_reads := %s; mf_pre_writes := %s;\n", coqStrs(f.PreReads), coqStrs(f.PreWrites))
		fmt.Fprintf(&b, "     mf_pre_self_calls := %s; mf_pre_calls := %s;\n", coqStrs(f.PreSelf), coqStrs(f.PreCalls))
		fmt.Fprintf(&b, "     mf_reads := %s; mf_writes := %s;\n", coqStrs(f.Reads), coqStrs(f.Writes))
		fmt.Fprintf(&b, "     mf_self_calls := %s |}", coqStrs(f.Self))
	}
	fmt.Fprintf(&b, "\n].\n")

	if *out == "" {
		os.Stdout.Write(b.Bytes())
		return
	}
	if old, err := os.ReadFile(*out); err == nil && bytes.Equal(old, b.Bytes()) {
		return
	}
	os.MkdirAll(filepath.Dir(*out), 0o755)
	tmp := *out + ".tmp"
	if err := os.WriteFile(tmp, b.Bytes(), 0o644); err != nil {
		fmt.Fprintln(os.Stderr, "lockfacts:", err)
		os.Exit(1)
	}
	if err := os.Rename(tmp, *out); err != nil {
		fmt.Fprintln(os.Stderr, "lockfacts:", err)
		os.Exit(1)
	}
	fmt.Fprintln(os.Stderr, "lockfacts: wrote", *out)
}
