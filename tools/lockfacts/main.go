// lockfacts: extracts, from generator/graph/instance.go, the *lock facts* of every method of
// graph.Instance and writes them as a Coq file (coq/gen/LockFacts.v) for Graph/Lock.v (property C13).
//
// Purely syntactic (go/parser + go/ast, no type checking).  Per method with receiver `r *Instance`:
//   - which top-level statement is exactly `r.<mutex>.Lock()` and which is `defer r.<mutex>.Unlock()`
//   - how often the mutex field is mentioned at all (an explicit Unlock, a second Lock, TryLock, ...
//     all show up as extra mentions), how many defer / go statements and function literals the body has
//   - for the statements *before* the lock (all statements when there is no lock): their kinds, the
//     receiver fields read / written, receiver methods called, other callees, bare uses of the receiver
//   - for the whole body: receiver fields read / written and receiver methods called (the Coq side closes
//     these transitively to obtain the set of fields written inside the critical sections)
//
// Equivalent locking idioms are normalised to the same facts -- only when the helper involved is found in the
// same package (all non-test files of the directory are parsed), has a pointer receiver of the type, takes no
// parameters and its body is EXACTLY the pattern (it touches nothing else); anything else stays unrecognised and
// the fact stays broken:
//   (a) `defer r.helper()()`           helper body: `r.mu.Lock(); return r.mu.Unlock`  (or `return func() { r.mu.Unlock() }`)
//                                      = Lock at this statement, deferred Unlock right after it
//   (b) `r.lock(); defer r.unlock()`   wrapper bodies: exactly `r.mu.Lock()` / exactly `r.mu.Unlock()`
//   (c) `r.mu.Lock(); defer func() { r.mu.Unlock() }()`
// A use of such a helper counts as the mutex mentions it stands for (1 for a wrapper, 2 for a lock-and-return-unlock
// helper) and is not listed as a receiver-method call; every other use of a helper (method value, call outside the
// idiom position) still counts as mentions, so it breaks the "exactly two mentions" fact.
//
// "written" is conservative: assignment / inc-dec target rooted at r.f, delete(r.f, ..), &r.f, or a
// method call on r.f (unknown effect).  Every other mention of r.f is a read.
package main

import (
	"bytes"
	"flag"
	"fmt"
	"go/ast"
	"go/parser"
	"go/token"
	"os"
	"path/filepath"
	"sort"
	"strings"
)

type facts struct {
	Name                                   string
	NStmts                                 int
	LockAt, DeferUnlockAt                  int // -1: none
	LockMentions, Defers, Gos, FuncLits    int
	Escapes, PreEscapes                    int
	PreKinds                               []string
	PreReads, PreWrites, PreSelf, PreCalls []string
	Reads, Writes, Self                    []string
}

type ctx struct {
	recv    string
	fields  map[string]bool
	locks   map[string]bool
	methods map[string]bool
	// recognised helpers (method name -> mutex field)
	lockWrap   map[string]string // body: r.mu.Lock()
	unlockWrap map[string]string // body: r.mu.Unlock()
	lockRet    map[string]string // body: r.mu.Lock(); return <unlock of r.mu>
}

// helperWeight: how many mutex mentions one use of the receiver method stands for (0: not a helper)
func (c *ctx) helperWeight(name string) int {
	if _, ok := c.lockWrap[name]; ok {
		return 1
	}
	if _, ok := c.unlockWrap[name]; ok {
		return 1
	}
	if _, ok := c.lockRet[name]; ok {
		return 2
	}
	return 0
}

// recvMethodCall: e is the call `recv.name()` without arguments
func (c *ctx) recvMethodCall(e ast.Expr) (string, bool) {
	call, ok := e.(*ast.CallExpr)
	if !ok || len(call.Args) != 0 {
		return "", false
	}
	s, ok := call.Fun.(*ast.SelectorExpr)
	if !ok {
		return "", false
	}
	id, ok := s.X.(*ast.Ident)
	if !ok || id.Name != c.recv || c.recv == "" || c.fields[s.Sel.Name] {
		return "", false
	}
	return s.Sel.Name, true
}

// directLockOp: e is the call `recv.<lock>.<op>()`; returns (op, field)
func (c *ctx) directLockOp(e ast.Expr) (string, string, bool) {
	call, ok := e.(*ast.CallExpr)
	if !ok || len(call.Args) != 0 {
		return "", "", false
	}
	s, ok := call.Fun.(*ast.SelectorExpr)
	if !ok {
		return "", "", false
	}
	f, ok := c.recvField(s.X)
	if !ok || !c.locks[f] {
		return "", "", false
	}
	return s.Sel.Name, f, true
}

// unlockFuncLit: e is `func() { recv.<lock>.Unlock() }` (or through an unlock wrapper); returns the field
func (c *ctx) unlockFuncLit(e ast.Expr) (string, bool) {
	fl, ok := e.(*ast.FuncLit)
	if !ok || fl.Type.Params != nil && len(fl.Type.Params.List) != 0 || fl.Type.Results != nil && len(fl.Type.Results.List) != 0 {
		return "", false
	}
	if len(fl.Body.List) != 1 {
		return "", false
	}
	es, ok := fl.Body.List[0].(*ast.ExprStmt)
	if !ok {
		return "", false
	}
	if op, f, ok := c.directLockOp(es.X); ok && op == "Unlock" {
		return f, true
	}
	if n, ok := c.recvMethodCall(es.X); ok {
		if f, ok := c.unlockWrap[n]; ok {
			return f, true
		}
	}
	return "", false
}

// classifyHelper looks at one method of the type (its own receiver name is set in c.recv by the caller)
func (c *ctx) classifyHelper(fd *ast.FuncDecl, pointerRecv bool) {
	if !pointerRecv || fd.Body == nil || fd.Type.Params != nil && len(fd.Type.Params.List) != 0 || c.recv == "" {
		return
	}
	nres := 0
	if fd.Type.Results != nil {
		for _, r := range fd.Type.Results.List {
			if len(r.Names) == 0 {
				nres++
			} else {
				nres += len(r.Names)
			}
		}
	}
	body := fd.Body.List
	if nres == 0 && len(body) == 1 {
		if es, ok := body[0].(*ast.ExprStmt); ok {
			if op, f, ok := c.directLockOp(es.X); ok {
				if op == "Lock" {
					c.lockWrap[fd.Name.Name] = f
				} else if op == "Unlock" {
					c.unlockWrap[fd.Name.Name] = f
				}
			}
		}
		return
	}
	if nres == 1 && len(body) == 2 {
		es, ok1 := body[0].(*ast.ExprStmt)
		rs, ok2 := body[1].(*ast.ReturnStmt)
		if !ok1 || !ok2 || len(rs.Results) != 1 {
			return
		}
		op, f, ok := c.directLockOp(es.X)
		if !ok || op != "Lock" {
			return
		}
		// return r.mu.Unlock   (method value)
		if sel, ok := rs.Results[0].(*ast.SelectorExpr); ok && sel.Sel.Name == "Unlock" {
			if g, ok := c.recvField(sel.X); ok && g == f {
				c.lockRet[fd.Name.Name] = f
			}
			return
		}
		// return func() { r.mu.Unlock() }
		if g, ok := c.unlockFuncLit(rs.Results[0]); ok && g == f {
			c.lockRet[fd.Name.Name] = f
		}
	}
}

// recvField returns f when e is `recv.f` with f a struct field.
func (c *ctx) recvField(e ast.Expr) (string, bool) {
	s, ok := e.(*ast.SelectorExpr)
	if !ok {
		return "", false
	}
	id, ok := s.X.(*ast.Ident)
	if !ok || id.Name != c.recv || c.recv == "" {
		return "", false
	}
	if c.fields[s.Sel.Name] {
		return s.Sel.Name, true
	}
	return "", false
}

// rootField strips index / selector / star / paren / slice wrappers and returns the receiver field at the root.
func (c *ctx) rootField(e ast.Expr) (string, bool) {
	for {
		if f, ok := c.recvField(e); ok {
			return f, true
		}
		switch x := e.(type) {
		case *ast.IndexExpr:
			e = x.X
		case *ast.SelectorExpr:
			e = x.X
		case *ast.StarExpr:
			e = x.X
		case *ast.ParenExpr:
			e = x.X
		case *ast.SliceExpr:
			e = x.X
		default:
			return "", false
		}
	}
}

// lockOp: e is the call `recv.<lock>.<op>()`, or a call of a recognised trivial wrapper method (idiom b).
func (c *ctx) lockOp(e ast.Expr) (string, bool) {
	if op, _, ok := c.directLockOp(e); ok {
		return op, true
	}
	if n, ok := c.recvMethodCall(e); ok {
		if _, ok := c.lockWrap[n]; ok {
			return "Lock", true
		}
		if _, ok := c.unlockWrap[n]; ok {
			return "Unlock", true
		}
	}
	return "", false
}

// lockRetDefer: the deferred call is `recv.helper()()` with helper a lock-and-return-unlock helper (idiom a)
func (c *ctx) lockRetDefer(call *ast.CallExpr) bool {
	if len(call.Args) != 0 {
		return false
	}
	n, ok := c.recvMethodCall(call.Fun)
	if !ok {
		return false
	}
	_, ok = c.lockRet[n]
	return ok
}

func render(e ast.Expr) string {
	switch x := e.(type) {
	case *ast.Ident:
		return x.Name
	case *ast.SelectorExpr:
		return render(x.X) + "." + x.Sel.Name
	case *ast.ParenExpr:
		return render(x.X)
	case *ast.IndexExpr: // generic instantiation f[T]
		return render(x.X)
	case *ast.IndexListExpr:
		return render(x.X)
	case *ast.CallExpr:
		return render(x.Fun) + "()"
	default:
		return "<expr>"
	}
}

type acc struct {
	reads, writes, self, calls map[string]bool
	escapes                    int
}

func newAcc() *acc {
	return &acc{map[string]bool{}, map[string]bool{}, map[string]bool{}, map[string]bool{}, 0}
}

// scan collects the accesses of one statement (or any node).
func (c *ctx) scan(n ast.Node, a *acc) {
	written := map[ast.Expr]bool{}     // selector nodes recv.f that are write targets
	selectorX := map[*ast.Ident]bool{} // receiver idents that are the X of a selector
	markWrite := func(e ast.Expr) {
		if f, ok := c.rootField(e); ok {
			a.writes[f] = true
			// remember the innermost recv.f node so that it is not also counted as a read
			for {
				if _, ok := c.recvField(e); ok {
					written[e] = true
					return
				}
				switch x := e.(type) {
				case *ast.IndexExpr:
					e = x.X
				case *ast.SelectorExpr:
					e = x.X
				case *ast.StarExpr:
					e = x.X
				case *ast.ParenExpr:
					e = x.X
				case *ast.SliceExpr:
					e = x.X
				default:
					return
				}
			}
		}
	}
	ast.Inspect(n, func(n ast.Node) bool {
		switch x := n.(type) {
		case *ast.AssignStmt:
			if x.Tok != token.DEFINE {
				for _, l := range x.Lhs {
					markWrite(l)
				}
			}
		case *ast.IncDecStmt:
			markWrite(x.X)
		case *ast.UnaryExpr:
			if x.Op == token.AND {
				markWrite(x.X)
			}
		case *ast.RangeStmt:
			if x.Tok == token.ASSIGN {
				if x.Key != nil {
					markWrite(x.Key)
				}
				if x.Value != nil {
					markWrite(x.Value)
				}
			}
		case *ast.CallExpr:
			if _, ok := c.lockOp(x); ok {
				return true
			}
			if id, ok := x.Fun.(*ast.Ident); ok && id.Name == "delete" && len(x.Args) > 0 {
				markWrite(x.Args[0])
			}
			if s, ok := x.Fun.(*ast.SelectorExpr); ok {
				if id, ok := s.X.(*ast.Ident); ok && id.Name == c.recv && c.recv != "" && !c.fields[s.Sel.Name] {
					if c.helperWeight(s.Sel.Name) == 0 { // uses of lock helpers are counted as mutex mentions instead
						a.self[s.Sel.Name] = true // r.method(...)
					}
					return true
				}
				if f, ok := c.rootField(s.X); ok && !c.locks[f] {
					markWrite(s.X) // method call on a field: unknown effect
					a.reads[f] = true
				}
			}
			a.calls[render(x.Fun)] = true
		case *ast.SelectorExpr:
			if id, ok := x.X.(*ast.Ident); ok && id.Name == c.recv && c.recv != "" {
				selectorX[id] = true
				if c.fields[x.Sel.Name] {
					if !c.locks[x.Sel.Name] && !written[x] {
						a.reads[x.Sel.Name] = true
					}
				} else if c.helperWeight(x.Sel.Name) == 0 {
					a.self[x.Sel.Name] = true // method value or call
				}
			}
		case *ast.Ident:
			if x.Name == c.recv && c.recv != "" && !selectorX[x] {
				a.escapes++
			}
		}
		return true
	})
}

func keys(m map[string]bool) []string {
	out := make([]string, 0, len(m))
	for k := range m {
		out = append(out, k)
	}
	sort.Strings(out)
	return out
}

func keysS(m map[string]string) []string {
	out := make([]string, 0, len(m))
	for k := range m {
		out = append(out, k)
	}
	sort.Strings(out)
	return out
}

func kind(s ast.Stmt) string {
	switch x := s.(type) {
	case *ast.AssignStmt:
		if x.Tok == token.DEFINE {
			return "define"
		}
		return "assign"
	case *ast.IfStmt:
		return "if"
	case *ast.ExprStmt:
		return "expr"
	case *ast.DeferStmt:
		return "defer"
	case *ast.GoStmt:
		return "go"
	case *ast.ReturnStmt:
		return "return"
	case *ast.ForStmt:
		return "for"
	case *ast.RangeStmt:
		return "range"
	case *ast.DeclStmt:
		return "decl"
	case *ast.IncDecStmt:
		return "incdec"
	case *ast.SwitchStmt, *ast.TypeSwitchStmt:
		return "switch"
	case *ast.BlockStmt:
		return "block"
	default:
		return "other"
	}
}

func (c *ctx) analyse(fd *ast.FuncDecl) facts {
	f := facts{Name: fd.Name.Name, LockAt: -1, DeferUnlockAt: -1}
	if fd.Body == nil {
		return f
	}
	stmts := fd.Body.List
	f.NStmts = len(stmts)
	idiomLits := 0
	for k, s := range stmts {
		if es, ok := s.(*ast.ExprStmt); ok && f.LockAt < 0 {
			if op, ok := c.lockOp(es.X); ok && op == "Lock" {
				f.LockAt = k
			}
		}
		if ds, ok := s.(*ast.DeferStmt); ok && f.DeferUnlockAt < 0 {
			if op, ok := c.lockOp(ds.Call); ok && op == "Unlock" {
				f.DeferUnlockAt = k
			} else if len(ds.Call.Args) == 0 {
				if _, ok := c.unlockFuncLit(ds.Call.Fun); ok { // idiom (c)
					f.DeferUnlockAt = k
					idiomLits++
				}
			}
			if f.LockAt < 0 && f.DeferUnlockAt < 0 && c.lockRetDefer(ds.Call) { // idiom (a): locks here, unlock deferred
				f.LockAt = k
				f.DeferUnlockAt = k + 1
			}
		}
	}
	ast.Inspect(fd.Body, func(n ast.Node) bool {
		switch x := n.(type) {
		case *ast.DeferStmt:
			f.Defers++
		case *ast.GoStmt:
			f.Gos++
		case *ast.FuncLit:
			f.FuncLits++
		case *ast.SelectorExpr:
			if fl, ok := c.recvField(x); ok && c.locks[fl] {
				f.LockMentions++
			}
			if id, ok := x.X.(*ast.Ident); ok && id.Name == c.recv && c.recv != "" && !c.fields[x.Sel.Name] {
				f.LockMentions += c.helperWeight(x.Sel.Name) // every use of a lock helper, in idiom position or not
			}
		}
		return true
	})
	f.FuncLits -= idiomLits // `defer func() { r.mu.Unlock() }()` is the deferred unlock itself
	whole := newAcc()
	c.scan(fd.Body, whole)
	f.Reads, f.Writes, f.Self, f.Escapes = keys(whole.reads), keys(whole.writes), keys(whole.self), whole.escapes
	pre := newAcc()
	end := len(stmts)
	if f.LockAt >= 0 {
		end = f.LockAt
	}
	for _, s := range stmts[:end] {
		f.PreKinds = append(f.PreKinds, kind(s))
		c.scan(s, pre)
	}
	f.PreReads, f.PreWrites, f.PreSelf, f.PreCalls, f.PreEscapes =
		keys(pre.reads), keys(pre.writes), keys(pre.self), keys(pre.calls), pre.escapes
	return f
}

func coqStr(s string) string { return "\"" + strings.ReplaceAll(s, "\"", "\"\"") + "\"" }
func coqStrs(xs []string) string {
	q := make([]string, len(xs))
	for i, x := range xs {
		q[i] = coqStr(x)
	}
	return "[" + strings.Join(q, "; ") + "]"
}
func coqOptNat(k int) string {
	if k < 0 {
		return "None"
	}
	return fmt.Sprintf("(Some %d)", k)
}

func main() {
	repo := flag.String("repo", "/repo", "polyform working tree")
	rel := flag.String("file", "generator/graph/instance.go", "file with the Instance type, relative to -repo")
	typ := flag.String("type", "Instance", "receiver type")
	out := flag.String("o", "", "output .v file (written only when the content changes); empty: stdout")
	flag.Parse()

	fset := token.NewFileSet()
	file, err := parser.ParseFile(fset, filepath.Join(*repo, *rel), nil, 0)
	if err != nil {
		fmt.Fprintln(os.Stderr, "lockfacts:", err)
		os.Exit(1)
	}
	c := &ctx{fields: map[string]bool{}, locks: map[string]bool{}, methods: map[string]bool{},
		lockWrap: map[string]string{}, unlockWrap: map[string]string{}, lockRet: map[string]string{}}
	var fieldOrder, lockOrder []string
	// struct fields; mutex fields are those whose type is <pkg>.Mutex / <pkg>.RWMutex (or a pointer to one)
	for _, d := range file.Decls {
		gd, ok := d.(*ast.GenDecl)
		if !ok {
			continue
		}
		for _, sp := range gd.Specs {
			ts, ok := sp.(*ast.TypeSpec)
			if !ok || ts.Name.Name != *typ {
				continue
			}
			st, ok := ts.Type.(*ast.StructType)
			if !ok {
				continue
			}
			for _, fl := range st.Fields.List {
				t := fl.Type
				if p, ok := t.(*ast.StarExpr); ok {
					t = p.X
				}
				isLock := false
				if s, ok := t.(*ast.SelectorExpr); ok && (s.Sel.Name == "Mutex" || s.Sel.Name == "RWMutex") {
					isLock = true
				}
				for _, nm := range fl.Names {
					c.fields[nm.Name] = true
					fieldOrder = append(fieldOrder, nm.Name)
					if isLock {
						c.locks[nm.Name] = true
						lockOrder = append(lockOrder, nm.Name)
					}
				}
			}
		}
	}
	recvOf := func(fd *ast.FuncDecl) (string, bool) {
		if fd.Recv == nil || len(fd.Recv.List) != 1 {
			return "", false
		}
		t := fd.Recv.List[0].Type
		if p, ok := t.(*ast.StarExpr); ok {
			t = p.X
		}
		id, ok := t.(*ast.Ident)
		if !ok || id.Name != *typ {
			return "", false
		}
		if len(fd.Recv.List[0].Names) == 1 {
			return fd.Recv.List[0].Names[0].Name, true
		}
		return "", true
	}
	for _, d := range file.Decls {
		if fd, ok := d.(*ast.FuncDecl); ok {
			if _, ok := recvOf(fd); ok {
				c.methods[fd.Name.Name] = true
			}
		}
	}
	// lock helpers may live in any non-test file of the package
	pkgFiles := []*ast.File{file}
	if matches, err := filepath.Glob(filepath.Join(filepath.Dir(filepath.Join(*repo, *rel)), "*.go")); err == nil {
		sort.Strings(matches)
		for _, m := range matches {
			if strings.HasSuffix(m, "_test.go") || filepath.Base(m) == filepath.Base(*rel) {
				continue
			}
			if pf, err := parser.ParseFile(fset, m, nil, 0); err == nil && pf.Name.Name == file.Name.Name {
				pkgFiles = append(pkgFiles, pf)
			}
		}
	}
	// two passes: wrappers first (a lock-and-return-unlock helper may return a closure calling an unlock wrapper)
	for pass := 0; pass < 2; pass++ {
		for _, pf := range pkgFiles {
			for _, d := range pf.Decls {
				fd, ok := d.(*ast.FuncDecl)
				if !ok {
					continue
				}
				r, ok := recvOf(fd)
				if !ok || r == "" || r == "_" {
					continue
				}
				_, ptr := fd.Recv.List[0].Type.(*ast.StarExpr)
				c.recv = r
				c.classifyHelper(fd, ptr)
			}
		}
	}
	var all []facts
	for _, d := range file.Decls {
		fd, ok := d.(*ast.FuncDecl)
		if !ok {
			continue
		}
		r, ok := recvOf(fd)
		if !ok {
			continue
		}
		c.recv = r
		if r == "_" {
			c.recv = ""
		}
		all = append(all, c.analyse(fd))
	}

	var b bytes.Buffer
	fmt.Fprintf(&b, "(* GENERATED by tools/lockfacts from %s (type %s) -- do not edit.\n", *rel, *typ)
	fmt.Fprintf(&b, "   Regenerated by bin/regen-c13.sh on every `bin/check C13` run; Properties/C13.v proves\n")
	fmt.Fprintf(&b, "   lock_facts_ok on this file by computation. *)\n")
	fmt.Fprintf(&b, "From Coq Require Import List String.\nFrom PF Require Import Graph.Lock Graph.LockExt.\nImport ListNotations.\nOpen Scope string_scope.\n\n")
	fmt.Fprintf(&b, "(* recognised lock helpers (normalised, see tools/lockfacts): lock wrappers %v, unlock wrappers %v, lock-and-return-unlock %v *)\n",
		keysS(c.lockWrap), keysS(c.unlockWrap), keysS(c.lockRet))
	fmt.Fprintf(&b, "Definition struct_fields : list string := %s.\n", coqStrs(fieldOrder))
	fmt.Fprintf(&b, "Definition lock_fields : list string := %s.\n\n", coqStrs(lockOrder))
	fmt.Fprintf(&b, "Definition facts : list mfacts := [\n")
	for k, f := range all {
		if k > 0 {
			fmt.Fprintf(&b, ";\n")
		}
		fmt.Fprintf(&b, "  {| mf_name := %s; mf_nstmts := %d;\n", coqStr(f.Name), f.NStmts)
		fmt.Fprintf(&b, "     mf_lock_at := %s; mf_defer_unlock_at := %s; mf_lock_mentions := %d;\n",
			coqOptNat(f.LockAt), coqOptNat(f.DeferUnlockAt), f.LockMentions)
		fmt.Fprintf(&b, "     mf_defers := %d; mf_gos := %d; mf_funclits := %d; mf_escapes := %d; mf_pre_escapes := %d;\n",
			f.Defers, f.Gos, f.FuncLits, f.Escapes, f.PreEscapes)
		fmt.Fprintf(&b, "     mf_pre_kinds := %s;\n", coqStrs(f.PreKinds))
		fmt.Fprintf(&b, "     mf_pre_reads := %s; mf_pre_writes := %s;\n", coqStrs(f.PreReads), coqStrs(f.PreWrites))
		fmt.Fprintf(&b, "     mf_pre_self_calls := %s; mf_pre_calls := %s;\n", coqStrs(f.PreSelf), coqStrs(f.PreCalls))
		fmt.Fprintf(&b, "     mf_reads := %s; mf_writes := %s;\n", coqStrs(f.Reads), coqStrs(f.Writes))
		fmt.Fprintf(&b, "     mf_self_calls := %s |}", coqStrs(f.Self))
	}
	fmt.Fprintf(&b, "\n].\n")
	hf, err := handlerFacts(*repo, c.methods)
	if err != nil {
		fmt.Fprintln(os.Stderr, "lockfacts: handler facts:", err)
		os.Exit(1)
	}
	b.WriteString(hf)

	if *out == "" {
		os.Stdout.Write(b.Bytes())
		return
	}
	if old, err := os.ReadFile(*out); err == nil && bytes.Equal(old, b.Bytes()) {
		return
	}
	os.MkdirAll(filepath.Dir(*out), 0o755)
	tmp := *out + ".tmp"
	if err := os.WriteFile(tmp, b.Bytes(), 0o644); err != nil {
		fmt.Fprintln(os.Stderr, "lockfacts:", err)
		os.Exit(1)
	}
	if err := os.Rename(tmp, *out); err != nil {
		fmt.Fprintln(os.Stderr, "lockfacts:", err)
		os.Exit(1)
	}
	fmt.Fprintln(os.Stderr, "lockfacts: wrote", *out)
}
