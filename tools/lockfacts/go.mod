module verif/lockfacts

go 1.21.0
