// tab2coq: translate integer table declarations of a Go source file into Coq definitions.
//
//	tab2coq -o out.v  file.go:goName[:coqName[:mode]] ...
//
// For every spec the first declaration of goName in the file is located (package level
// `var x = …` / `const x = …`, or a local `x := …` / `var x = …` inside any function) and its
// value is translated:
//
//	mode "" (default)  int literal                          -> Definition coqName : Z
//	                   [...]int{…} / []int{…}               -> Definition coqName : list Z
//	                   [...][]int{{…},…} / [][]int{…}       -> Definition coqName : list (list Z)
//	                   []T{{X: a, Y: b, Z: c}, …}           -> list (list Z), rows [a; b; c]
//	mode "sel"         []T{ident, {X: e, Y: e, Z: e}, …}    -> list (list Z): a bare identifier is the row
//	                   [0;0;0]; a field value `v.F` (F = the key) is 0; an identifier whose name
//	                   starts with x/y/z is 1/2/3 (which "next block" variable is used).
//
// Anything else (arithmetic, calls, unknown identifiers) is an error: the tool never guesses.
// Stdlib only (go/parser, go/ast).
package main

import (
	"flag"
	"fmt"
	"go/ast"
	"go/parser"
	"go/token"
	"os"
	"strconv"
	"strings"
)

func die(f string, a ...interface{}) {
	fmt.Fprintf(os.Stderr, "tab2coq: "+f+"\n", a...)
	os.Exit(1)
}

// findValue returns the first expression bound to name in the file.
func findValue(f *ast.File, name string) ast.Expr {
	var found ast.Expr
	ast.Inspect(f, func(n ast.Node) bool {
		if found != nil {
			return false
		}
		switch d := n.(type) {
		case *ast.ValueSpec:
			for i, id := range d.Names {
				if id.Name == name && i < len(d.Values) {
					found = d.Values[i]
				}
			}
		case *ast.AssignStmt:
			if d.Tok == token.DEFINE {
				for i, l := range d.Lhs {
					if id, ok := l.(*ast.Ident); ok && id.Name == name && i < len(d.Rhs) {
						found = d.Rhs[i]
					}
				}
			}
		}
		return true
	})
	return found
}

func intLit(e ast.Expr) (int64, bool) {
	switch v := e.(type) {
	case *ast.BasicLit:
		if v.Kind != token.INT {
			return 0, false
		}
		n, err := strconv.ParseInt(v.Value, 0, 64)
		return n, err == nil
	case *ast.UnaryExpr:
		if n, ok := intLit(v.X); ok {
			if v.Op == token.SUB {
				return -n, true
			}
			if v.Op == token.ADD {
				return n, true
			}
		}
	case *ast.ParenExpr:
		return intLit(v.X)
	}
	return 0, false
}

func z(n int64) string {
	if n < 0 {
		return fmt.Sprintf("(%d)", n)
	}
	return strconv.FormatInt(n, 10)
}

var xyz = []string{"X", "Y", "Z"}

// structRow: {X: a, Y: b, Z: c} (keys in any order, missing = 0) or positional {a, b, c}.
func structRow(c *ast.CompositeLit, val func(key string, e ast.Expr) (int64, error)) ([]int64, error) {
	row := []int64{0, 0, 0}
	for i, el := range c.Elts {
		if kv, ok := el.(*ast.KeyValueExpr); ok {
			k, ok := kv.Key.(*ast.Ident)
			if !ok {
				return nil, fmt.Errorf("non-identifier key")
			}
			idx := -1
			for j, n := range xyz {
				if n == k.Name {
					idx = j
				}
			}
			if idx < 0 {
				return nil, fmt.Errorf("unknown field %s", k.Name)
			}
			v, err := val(k.Name, kv.Value)
			if err != nil {
				return nil, err
			}
			row[idx] = v
		} else {
			if i > 2 {
				return nil, fmt.Errorf("more than three positional fields")
			}
			v, err := val(xyz[i], el)
			if err != nil {
				return nil, err
			}
			row[i] = v
		}
	}
	return row, nil
}

func isKeyed(c *ast.CompositeLit) bool {
	for _, el := range c.Elts {
		if _, ok := el.(*ast.KeyValueExpr); ok {
			return true
		}
	}
	return false
}

func translate(name, coq, mode string, e ast.Expr) (string, error) {
	if n, ok := intLit(e); ok {
		return fmt.Sprintf("Definition %s : Z := %s.\n", coq, z(n)), nil
	}
	c, ok := e.(*ast.CompositeLit)
	if !ok {
		return "", fmt.Errorf("%s: not an integer or composite literal", name)
	}
	plain := func(_ string, e ast.Expr) (int64, error) {
		if n, ok := intLit(e); ok {
			return n, nil
		}
		return 0, fmt.Errorf("%s: non-literal element", name)
	}
	sel := func(key string, e ast.Expr) (int64, error) {
		switch v := e.(type) {
		case *ast.SelectorExpr:
			if v.Sel.Name == key {
				if _, ok := v.X.(*ast.Ident); ok {
					return 0, nil
				}
			}
			return 0, fmt.Errorf("%s: field %s initialised from a different field", name, key)
		case *ast.Ident:
			switch {
			case strings.HasPrefix(v.Name, "x"):
				return 1, nil
			case strings.HasPrefix(v.Name, "y"):
				return 2, nil
			case strings.HasPrefix(v.Name, "z"):
				return 3, nil
			}
		}
		return 0, fmt.Errorf("%s: unsupported block-position expression", name)
	}
	// flat list of ints?
	flat := true
	for _, el := range c.Elts {
		if _, ok := intLit(el); !ok {
			flat = false
		}
	}
	var b strings.Builder
	if flat && mode == "" {
		fmt.Fprintf(&b, "Definition %s : list Z :=\n  [", coq)
		for i, el := range c.Elts {
			n, _ := intLit(el)
			if i > 0 {
				b.WriteString("; ")
				if i%16 == 0 {
					b.WriteString("\n   ")
				}
			}
			b.WriteString(z(n))
		}
		b.WriteString("].\n")
		return b.String(), nil
	}
	fmt.Fprintf(&b, "Definition %s : list (list Z) :=\n  [", coq)
	for i, el := range c.Elts {
		var row []int64
		var err error
		switch v := el.(type) {
		case *ast.CompositeLit:
			if mode == "sel" {
				row, err = structRow(v, sel)
			} else if isKeyed(v) {
				row, err = structRow(v, plain)
			} else {
				for _, x := range v.Elts {
					n, ok := intLit(x)
					if !ok {
						err = fmt.Errorf("%s: non-literal element in row %d", name, i)
						break
					}
					row = append(row, n)
				}
			}
		case *ast.Ident:
			if mode != "sel" {
				err = fmt.Errorf("%s: identifier element in row %d", name, i)
			}
			row = []int64{0, 0, 0}
		default:
			err = fmt.Errorf("%s: unsupported element in row %d", name, i)
		}
		if err != nil {
			return "", err
		}
		if i > 0 {
			b.WriteString(";\n   ")
		}
		b.WriteString("[")
		for j, n := range row {
			if j > 0 {
				b.WriteString("; ")
			}
			b.WriteString(z(n))
		}
		b.WriteString("]")
	}
	b.WriteString("].\n")
	return b.String(), nil
}

func main() {
	out := flag.String("o", "", "output .v file (default stdout)")
	header := flag.String("header", "", "comment placed at the top of the output")
	flag.Parse()
	var b strings.Builder
	if *header != "" {
		fmt.Fprintf(&b, "(* %s *)\n", *header)
	}
	b.WriteString("(* GENERATED by tools/tab2coq -- do not edit. *)\nFrom Coq Require Import List ZArith.\nImport ListNotations.\nOpen Scope Z_scope.\n\n")
	files := map[string]*ast.File{}
	fset := token.NewFileSet()
	for _, spec := range flag.Args() {
		p := strings.Split(spec, ":")
		if len(p) < 2 {
			die("bad spec %q", spec)
		}
		file, name, coq, mode := p[0], p[1], p[1], ""
		if len(p) > 2 && p[2] != "" {
			coq = p[2]
		}
		if len(p) > 3 {
			mode = p[3]
		}
		f := files[file]
		if f == nil {
			var err error
			f, err = parser.ParseFile(fset, file, nil, 0)
			if err != nil {
				die("%v", err)
			}
			files[file] = f
		}
		e := findValue(f, name)
		if e == nil {
			die("%s: no declaration of %s", file, name)
		}
		s, err := translate(name, coq, mode, e)
		if err != nil {
			die("%s: %v", file, err)
		}
		fmt.Fprintf(&b, "(* %s : %s *)\n%s\n", file[strings.LastIndex(file, "/")+1:], name, s)
	}
	if *out == "" {
		fmt.Print(b.String())
		return
	}
	if old, err := os.ReadFile(*out); err == nil && string(old) == b.String() {
		return // unchanged: keep the timestamp so make does not rebuild
	}
	if err := os.WriteFile(*out, []byte(b.String()), 0o644); err != nil {
		die("%v", err)
	}
}
