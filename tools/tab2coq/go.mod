module verif/tab2coq

go 1.21.0
