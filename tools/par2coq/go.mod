module verif/par2coq

go 1.21.0
