// par2coq: translator binding (T) for property C10.
//
// Reads modeling/mesh.go of the repository under test and executes every  <X>ParallelWithPoolSize  method of Mesh,
// its sequential counterpart <X> and its wrapper <X>Parallel SYMBOLICALLY over the integers: straight-line integer
// code, if/else (merged into conditional expressions), early returns, calls of unexported helpers of the package
// (inlined, also with several results), closures started with `go` (parameters bound to the call's arguments,
// captured variables read from the enclosing environment), `switch` on a non-integer tag (one labelled branch per
// case).  What it writes to coq/gen/ParSites.v is, per entry point, what the SOURCE says:
//
//   - under which pool sizes the entry point panics / delegates to which method,
//   - the bounds of the dispatch loop (the loop that contains the `go` statement),
//   - for every element loop (for i := lo; i < hi; i++ / for i, v := range data): whether it runs inside a worker,
//     under which branch label and integer guard, lo and hi as Gallina expressions of a (the element count atom:
//     len(<data>) or m.PrimitiveCount()), s (the pool size) and w (the dispatch variable), the index handed to the
//     user callback, the indices read and written, as expressions of the loop variable k.
//
// Par/SitesProofs.v proves the partition theorem AGAINST THESE GENERATED TERMS on every run, so an edit of the
// arithmetic or of one call site (say scanLinePrimitives(start, start+size) after the helpers were changed to
// take a count) breaks a proof obligation; a behaviour-preserving restructuring (helper extracted, closure
// captures instead of parameters, end computed instead of size) yields different but provably equal terms.
//
// Anything the executor does not understand (break/continue, a loop-carried integer, an unknown integer atom) is
// not guessed: the tool reports it and exits 1, the check then reports the obligation as broken.
package main

import (
	"bytes"
	"flag"
	"fmt"
	"go/ast"
	"go/parser"
	"go/printer"
	"go/token"
	"os"
	"path/filepath"
	"sort"
	"strings"
)

// ------------------------------------------------------------------ symbolic integers and conditions
type E struct {
	K    string // const atom add sub mul fdiv cdiv quot ite
	V    int64
	Name string
	A, B *E
	C    *C
}
type C struct {
	K    string // cmp not and or opaque
	Op   string
	A, B *E
	X, Y *C
	Text string
}

func konst(v int64) *E   { return &E{K: "const", V: v} }
func atom(n string) *E   { return &E{K: "atom", Name: n} }
func bin(k string, a, b *E) *E {
	if a.K == "const" && b.K == "const" {
		switch k {
		case "add":
			return konst(a.V + b.V)
		case "sub":
			return konst(a.V - b.V)
		case "mul":
			return konst(a.V * b.V)
		}
	}
	return &E{K: k, A: a, B: b}
}
func ite(c *C, a, b *E) *E {
	if a.coq(rawNames) == b.coq(rawNames) {
		return a
	}
	return &E{K: "ite", C: c, A: a, B: b}
}
func not(c *C) *C { return &C{K: "not", X: c} }

type namer func(string) string

func rawNames(s string) string { return "<" + s + ">" }

func (e *E) coq(nm namer) string {
	switch e.K {
	case "const":
		if e.V < 0 {
			return fmt.Sprintf("(%d)", e.V)
		}
		return fmt.Sprint(e.V)
	case "atom":
		return nm(e.Name)
	case "add":
		return "(" + e.A.coq(nm) + " + " + e.B.coq(nm) + ")"
	case "sub":
		return "(" + e.A.coq(nm) + " - " + e.B.coq(nm) + ")"
	case "mul":
		return "(" + e.A.coq(nm) + " * " + e.B.coq(nm) + ")"
	case "fdiv":
		return "(" + e.A.coq(nm) + " / " + e.B.coq(nm) + ")"
	case "cdiv":
		return "(- ((- " + e.A.coq(nm) + ") / " + e.B.coq(nm) + "))"
	case "quot":
		return "(Z.quot " + e.A.coq(nm) + " " + e.B.coq(nm) + ")"
	case "ite":
		return "(if " + e.C.coq(nm) + " then " + e.A.coq(nm) + " else " + e.B.coq(nm) + ")"
	}
	return "?"
}

func (c *C) coq(nm namer) string {
	switch c.K {
	case "cmp":
		a, b := c.A.coq(nm), c.B.coq(nm)
		switch c.Op {
		case "<":
			return "(" + a + " <? " + b + ")"
		case "<=":
			return "(" + a + " <=? " + b + ")"
		case ">":
			return "(" + b + " <? " + a + ")"
		case ">=":
			return "(" + b + " <=? " + a + ")"
		case "==":
			return "(" + a + " =? " + b + ")"
		case "!=":
			return "(negb (" + a + " =? " + b + "))"
		}
	case "not":
		return "(negb " + c.X.coq(nm) + ")"
	case "and":
		return "(andb " + c.X.coq(nm) + " " + c.Y.coq(nm) + ")"
	case "or":
		return "(orb " + c.X.coq(nm) + " " + c.Y.coq(nm) + ")"
	}
	return "?opaque"
}

func (c *C) opaque() bool {
	switch c.K {
	case "opaque":
		return true
	case "not":
		return c.X.opaque()
	case "and", "or":
		return c.X.opaque() || c.Y.opaque()
	}
	return false
}
func (c *C) text() string {
	switch c.K {
	case "opaque":
		return c.Text
	case "not":
		return "!(" + c.X.text() + ")"
	case "and":
		return "(" + c.X.text() + " && " + c.Y.text() + ")"
	case "or":
		return "(" + c.X.text() + " || " + c.Y.text() + ")"
	}
	return c.coq(rawNames)
}

func atomsE(e *E, out map[string]bool) {
	if e == nil {
		return
	}
	if e.K == "atom" {
		out[e.Name] = true
	}
	atomsE(e.A, out)
	atomsE(e.B, out)
	atomsC(e.C, out)
}
func atomsC(c *C, out map[string]bool) {
	if c == nil {
		return
	}
	atomsE(c.A, out)
	atomsE(c.B, out)
	atomsC(c.X, out)
	atomsC(c.Y, out)
}

// ------------------------------------------------------------------ values and environments
type Read struct {
	Base string
	Idx  *E
}
type Val struct {
	Int  *E
	Ref  string
	Read *Read
	Cb   bool
}

type Env struct {
	vars map[string]Val
	up   *Env
}

func newEnv(up *Env) *Env { return &Env{vars: map[string]Val{}, up: up} }
func (e *Env) lookup(n string) (Val, bool) {
	for s := e; s != nil; s = s.up {
		if v, ok := s.vars[n]; ok {
			return v, true
		}
	}
	return Val{}, false
}
func (e *Env) define(n string, v Val) { e.vars[n] = v }
func (e *Env) assign(n string, v Val) {
	for s := e; s != nil; s = s.up {
		if _, ok := s.vars[n]; ok {
			s.vars[n] = v
			return
		}
	}
	e.vars[n] = v
}
func (e *Env) clone() *Env {
	if e == nil {
		return nil
	}
	c := &Env{vars: map[string]Val{}, up: e.up.clone()}
	for k, v := range e.vars {
		c.vars[k] = v
	}
	return c
}
func (e *Env) depth() int {
	d := 0
	for s := e; s != nil; s = s.up {
		d++
	}
	return d
}

// dst := if c then t else f, scope by scope (the three chains have the same shape)
func merge(dst, t, f *Env, c *C, x *X) {
	for dst != nil && t != nil && f != nil {
		for n := range dst.vars {
			vt, vf := t.vars[n], f.vars[n]
			switch {
			case vt.Int != nil && vf.Int != nil:
				if vt.Int.coq(rawNames) != vf.Int.coq(rawNames) {
					if c.opaque() {
						x.fail("integer variable %s differs between the branches of a non-integer condition %s", n, c.text())
					}
					dst.vars[n] = Val{Int: ite(c, vt.Int, vf.Int)}
				} else {
					dst.vars[n] = vt
				}
			default:
				if vt.Ref != vf.Ref {
					vt.Ref = "(" + c.text() + " ? " + vt.Ref + " : " + vf.Ref + ")"
				}
				dst.vars[n] = vt
			}
		}
		dst, t, f = dst.up, t.up, f.up
	}
}

// ------------------------------------------------------------------ events
type Guarded struct {
	Path   []*C
	Labels []string
}
type CbCall struct {
	Idx   *E
	Reads []Read
}
type Loop struct {
	Guarded
	InWorker bool
	Lo, Hi   *E
	Calls    []CbCall
	Writes   []Read
}
type Deleg struct {
	Guarded
	Target string
	Args   []string
}
type Dispatch struct {
	Guarded
	Lo, Hi *E
}
type Events struct {
	Panics []Guarded
	Delegs []Deleg
	Disp   []Dispatch
	Loops  []*Loop
	Gos    int
	// what the entry point itself returns where it does not delegate (textual, aliases resolved)
	Results []string
}

// ------------------------------------------------------------------ executor
type X struct {
	fset     *token.FileSet
	funcs    map[string]*ast.FuncDecl
	path     []*C
	labels   []string
	ev       *Events
	inWorker bool
	curLoop  *Loop
	depth    int
	errs     []string
	fn       string
}

func (x *X) fail(f string, a ...interface{}) {
	x.errs = append(x.errs, x.fn+": "+fmt.Sprintf(f, a...))
}
func (x *X) snapshot() Guarded {
	return Guarded{Path: append([]*C{}, x.path...), Labels: append([]string{}, x.labels...)}
}
func (x *X) push(c *C) {
	if c.opaque() {
		x.labels = append(x.labels, c.text())
		x.path = append(x.path, nil)
	} else {
		x.path = append(x.path, c)
		x.labels = append(x.labels, "")
	}
}
func (x *X) truncate(n int) { x.path, x.labels = x.path[:n], x.labels[:n] }

func (x *X) src(n ast.Node) string {
	var b bytes.Buffer
	printer.Fprint(&b, x.fset, n)
	return strings.Join(strings.Fields(b.String()), " ")
}

// textual rendering of a non-integer expression with aliases resolved
func (x *X) ref(e ast.Expr, env *Env) string {
	switch t := e.(type) {
	case *ast.Ident:
		if v, ok := env.lookup(t.Name); ok {
			switch {
			case v.Ref != "":
				return v.Ref
			case v.Cb:
				return "<callback>"
			case v.Read != nil:
				return v.Read.Base + "[" + v.Read.Idx.coq(rawNames) + "]"
			case v.Int != nil:
				return v.Int.coq(rawNames)
			}
		}
		return t.Name
	case *ast.SelectorExpr:
		return x.ref(t.X, env) + "." + t.Sel.Name
	case *ast.IndexExpr:
		return x.ref(t.X, env) + "[" + x.ref(t.Index, env) + "]"
	case *ast.ParenExpr:
		return x.ref(t.X, env)
	case *ast.StarExpr:
		return "*" + x.ref(t.X, env)
	case *ast.UnaryExpr:
		return t.Op.String() + x.ref(t.X, env)
	case *ast.CallExpr:
		args := make([]string, len(t.Args))
		for i, a := range t.Args {
			args[i] = x.ref(a, env)
		}
		return x.ref(t.Fun, env) + "(" + strings.Join(args, ", ") + ")"
	}
	return x.src(e)
}

func isIdent(e ast.Expr, name string) bool {
	id, ok := e.(*ast.Ident)
	return ok && id.Name == name
}
func isSel(e ast.Expr, pkg, name string) bool {
	s, ok := e.(*ast.SelectorExpr)
	return ok && isIdent(s.X, pkg) && s.Sel.Name == name
}

// float64(X) / float64(Y)
func (x *X) floatQuot(e ast.Expr, env *Env) (*E, *E, bool) {
	if p, ok := e.(*ast.ParenExpr); ok {
		return x.floatQuot(p.X, env)
	}
	b, ok := e.(*ast.BinaryExpr)
	if !ok || b.Op != token.QUO {
		return nil, nil, false
	}
	conv := func(e ast.Expr) (*E, bool) {
		c, ok := e.(*ast.CallExpr)
		if !ok || !isIdent(c.Fun, "float64") || len(c.Args) != 1 {
			return nil, false
		}
		return x.evalInt(c.Args[0], env)
	}
	n, ok1 := conv(b.X)
	d, ok2 := conv(b.Y)
	return n, d, ok1 && ok2
}

func (x *X) evalInt(e ast.Expr, env *Env) (*E, bool) {
	switch t := e.(type) {
	case *ast.BasicLit:
		if t.Kind == token.INT {
			var v int64
			if _, err := fmt.Sscan(t.Value, &v); err == nil {
				return konst(v), true
			}
		}
		return nil, false
	case *ast.ParenExpr:
		return x.evalInt(t.X, env)
	case *ast.Ident:
		if v, ok := env.lookup(t.Name); ok && v.Int != nil {
			return v.Int, true
		}
		return nil, false
	case *ast.UnaryExpr:
		if t.Op == token.SUB {
			if a, ok := x.evalInt(t.X, env); ok {
				return bin("sub", konst(0), a), true
			}
		}
		return nil, false
	case *ast.BinaryExpr:
		a, ok1 := x.evalInt(t.X, env)
		if !ok1 {
			return nil, false
		}
		b, ok2 := x.evalInt(t.Y, env)
		if !ok2 {
			return nil, false
		}
		switch t.Op {
		case token.ADD:
			return bin("add", a, b), true
		case token.SUB:
			return bin("sub", a, b), true
		case token.MUL:
			return bin("mul", a, b), true
		case token.QUO:
			return bin("quot", a, b), true
		}
		return nil, false
	case *ast.CallExpr:
		switch {
		case isIdent(t.Fun, "len") && len(t.Args) == 1:
			return atom("len(" + x.ref(t.Args[0], env) + ")"), true
		case isIdent(t.Fun, "int") && len(t.Args) == 1:
			if c, ok := t.Args[0].(*ast.CallExpr); ok && len(c.Args) == 1 {
				if n, d, ok := x.floatQuot(c.Args[0], env); ok {
					switch {
					case isSel(c.Fun, "math", "Floor"):
						return bin("fdiv", n, d), true
					case isSel(c.Fun, "math", "Ceil"):
						return bin("cdiv", n, d), true
					}
					return nil, false
				}
			}
			return x.evalInt(t.Args[0], env)
		case (isIdent(t.Fun, "minInt") || isIdent(t.Fun, "min")) && len(t.Args) == 2:
			a, ok1 := x.evalInt(t.Args[0], env)
			b, ok2 := x.evalInt(t.Args[1], env)
			if ok1 && ok2 {
				return ite(&C{K: "cmp", Op: "<", A: a, B: b}, a, b), true
			}
			return nil, false
		case (isIdent(t.Fun, "maxInt") || isIdent(t.Fun, "max")) && len(t.Args) == 2:
			a, ok1 := x.evalInt(t.Args[0], env)
			b, ok2 := x.evalInt(t.Args[1], env)
			if ok1 && ok2 {
				return ite(&C{K: "cmp", Op: "<", A: a, B: b}, b, a), true
			}
			return nil, false
		}
		if fd := x.callee(t, env); fd != nil && fd.Type.Results != nil && resultInts(fd) == 1 {
			rets, ok := x.inline(fd, t, env)
			if ok && len(rets) == 1 && rets[0].Int != nil {
				return rets[0].Int, true
			}
			return nil, false
		}
		// an opaque integer source: m.PrimitiveCount(), runtime.NumCPU()
		if s, ok := t.Fun.(*ast.SelectorExpr); ok && len(t.Args) == 0 && ast.IsExported(s.Sel.Name) {
			if s.Sel.Name == "PrimitiveCount" || s.Sel.Name == "NumCPU" || s.Sel.Name == "AttributeLength" || s.Sel.Name == "Len" {
				return atom(x.ref(t, env)), true
			}
		}
	}
	return nil, false
}

func resultInts(fd *ast.FuncDecl) int {
	n := 0
	for _, f := range fd.Type.Results.List {
		k := len(f.Names)
		if k == 0 {
			k = 1
		}
		if !isIdent(f.Type, "int") {
			return -1
		}
		n += k
	}
	return n
}

func (x *X) cond(e ast.Expr, env *Env) *C {
	switch t := e.(type) {
	case *ast.ParenExpr:
		return x.cond(t.X, env)
	case *ast.UnaryExpr:
		if t.Op == token.NOT {
			return not(x.cond(t.X, env))
		}
	case *ast.BinaryExpr:
		switch t.Op {
		case token.LAND:
			return &C{K: "and", X: x.cond(t.X, env), Y: x.cond(t.Y, env)}
		case token.LOR:
			return &C{K: "or", X: x.cond(t.X, env), Y: x.cond(t.Y, env)}
		case token.LSS, token.LEQ, token.GTR, token.GEQ, token.EQL, token.NEQ:
			a, ok1 := x.evalInt(t.X, env)
			b, ok2 := x.evalInt(t.Y, env)
			if ok1 && ok2 {
				return &C{K: "cmp", Op: t.Op.String(), A: a, B: b}
			}
		}
	}
	return &C{K: "opaque", Text: x.ref(e, env)}
}

// the unexported function or method of the package a call refers to (nil: not ours / exported / unknown)
func (x *X) callee(c *ast.CallExpr, env *Env) *ast.FuncDecl {
	var name string
	switch f := c.Fun.(type) {
	case *ast.Ident:
		name = f.Name
	case *ast.SelectorExpr:
		name = f.Sel.Name
	default:
		return nil
	}
	if ast.IsExported(name) {
		return nil
	}
	if _, shadowed := env.lookup(name); shadowed {
		return nil
	}
	fd := x.funcs[name]
	if fd == nil || fd.Body == nil {
		return nil
	}
	// inline only what can matter: an integer or the callback among the arguments / results
	for _, a := range c.Args {
		if _, ok := x.evalInt(a, env); ok {
			return fd
		}
		if id, ok := a.(*ast.Ident); ok {
			if v, ok := env.lookup(id.Name); ok && v.Cb {
				return fd
			}
		}
	}
	if fd.Type.Results != nil && resultInts(fd) > 0 {
		return fd
	}
	return nil
}

func (x *X) value(e ast.Expr, env *Env) Val {
	if id, ok := e.(*ast.Ident); ok {
		if v, ok := env.lookup(id.Name); ok {
			return v
		}
	}
	if i, ok := x.evalInt(e, env); ok {
		return Val{Int: i}
	}
	return Val{Ref: x.ref(e, env)}
}

// execute the body of fd with its parameters bound to the call's arguments
func (x *X) inline(fd *ast.FuncDecl, c *ast.CallExpr, env *Env) ([]Val, bool) {
	if x.depth > 6 {
		x.fail("call depth exceeded at %s", fd.Name.Name)
		return nil, false
	}
	fe := newEnv(nil)
	if fd.Recv != nil && len(fd.Recv.List) == 1 && len(fd.Recv.List[0].Names) == 1 {
		recv := "m"
		if s, ok := c.Fun.(*ast.SelectorExpr); ok {
			recv = x.ref(s.X, env)
		}
		fe.define(fd.Recv.List[0].Names[0].Name, Val{Ref: recv})
	}
	i := 0
	for _, f := range fd.Type.Params.List {
		for _, n := range f.Names {
			if i < len(c.Args) {
				fe.define(n.Name, x.value(c.Args[i], env))
			}
			i++
		}
	}
	var named []string
	if fd.Type.Results != nil {
		for _, f := range fd.Type.Results.List {
			for _, n := range f.Names {
				fe.define(n.Name, Val{Int: konst(0)})
				named = append(named, n.Name)
			}
		}
	}
	x.depth++
	mark := len(x.path)
	rets, term := x.block(fd.Body.List, fe)
	x.truncate(mark)
	x.depth--
	if rets == nil && len(named) > 0 {
		for _, n := range named {
			v, _ := fe.lookup(n)
			rets = append(rets, v)
		}
	}
	_ = term
	return rets, true
}

func mergeRets(c *C, a, b []Val, x *X) []Val {
	if a == nil {
		return b
	}
	if b == nil || len(a) != len(b) {
		return a
	}
	out := make([]Val, len(a))
	for i := range a {
		switch {
		case a[i].Int != nil && b[i].Int != nil:
			if c.opaque() && a[i].Int.coq(rawNames) != b[i].Int.coq(rawNames) {
				x.fail("integer result depends on the non-integer condition %s", c.text())
			}
			out[i] = Val{Int: ite(c, a[i].Int, b[i].Int)}
		default:
			out[i] = a[i]
		}
	}
	return out
}

func (x *X) passesCallback(call *ast.CallExpr, env *Env) bool {
	for _, a := range call.Args {
		if id, ok := a.(*ast.Ident); ok {
			if v, ok := env.lookup(id.Name); ok && v.Cb {
				return true
			}
		}
	}
	return false
}

func containsGo(n ast.Node) bool {
	found := false
	ast.Inspect(n, func(n ast.Node) bool {
		if _, ok := n.(*ast.GoStmt); ok {
			found = true
		}
		return !found
	})
	return found
}

// variables assigned (not defined) inside n
func assigned(n ast.Node) map[string]bool {
	out := map[string]bool{}
	ast.Inspect(n, func(n ast.Node) bool {
		switch s := n.(type) {
		case *ast.AssignStmt:
			if s.Tok != token.DEFINE {
				for _, l := range s.Lhs {
					if id, ok := l.(*ast.Ident); ok {
						out[id.Name] = true
					}
				}
			}
		case *ast.IncDecStmt:
			if id, ok := s.X.(*ast.Ident); ok {
				out[id.Name] = true
			}
		}
		return true
	})
	return out
}

// returns (results of a return statement that ended the block, terminated)
func (x *X) block(stmts []ast.Stmt, env *Env) ([]Val, bool) {
	for i, st := range stmts {
		switch s := st.(type) {
		case *ast.IfStmt:
			if s.Init != nil {
				x.stmt(s.Init, env)
			}
			c := x.cond(s.Cond, env)
			mark := len(x.path)
			envT, envF := env.clone(), env.clone()
			x.push(c)
			rT, tT := x.block(s.Body.List, newEnv(envT))
			x.truncate(mark)
			x.push(not(c))
			var rF []Val
			tF := false
			switch e := s.Else.(type) {
			case *ast.BlockStmt:
				rF, tF = x.block(e.List, newEnv(envF))
			case *ast.IfStmt:
				rF, tF = x.block([]ast.Stmt{e}, newEnv(envF))
			}
			x.truncate(mark)
			switch {
			case tT && tF:
				return mergeRets(c, rT, rF, x), true
			case tT:
				// the rest of the function runs under the negated condition (left on the path until the function ends)
				*env = *envF
				x.push(not(c))
				rR, tR := x.block(stmts[i+1:], env)
				return mergeRets(c, rT, rR, x), tR
			case tF:
				*env = *envT
				x.push(c)
				rR, tR := x.block(stmts[i+1:], env)
				return mergeRets(not(c), rF, rR, x), tR
			default:
				merge(env, envT, envF, c, x)
			}
		case *ast.ReturnStmt:
			var rets []Val
			for _, r := range s.Results {
				delegated := false
				if call, ok := r.(*ast.CallExpr); ok {
					// a delegation hands the user callback on to an exported method
					if sel, ok := call.Fun.(*ast.SelectorExpr); ok && ast.IsExported(sel.Sel.Name) && !x.inWorker && x.passesCallback(call, env) {
						d := Deleg{Guarded: x.snapshot(), Target: sel.Sel.Name}
						for _, a := range call.Args {
							d.Args = append(d.Args, x.ref(a, env))
						}
						x.ev.Delegs = append(x.ev.Delegs, d)
						delegated = true
					}
				}
				if !delegated && !x.inWorker && x.depth == 0 {
					x.ev.Results = append(x.ev.Results, x.ref(r, env))
				}
				rets = append(rets, x.value(r, env))
			}
			if rets == nil {
				rets = []Val{}
			}
			return rets, true
		case *ast.ExprStmt:
			if call, ok := s.X.(*ast.CallExpr); ok && isIdent(call.Fun, "panic") {
				if !x.inWorker && x.curLoop == nil {
					x.ev.Panics = append(x.ev.Panics, x.snapshot())
				}
				return nil, true
			}
			x.stmt(st, env)
		case *ast.BranchStmt:
			x.fail("unsupported control flow: %s", s.Tok)
			return nil, true
		default:
			x.stmt(st, env)
		}
	}
	return nil, false
}

func (x *X) forHeader(s *ast.ForStmt, env *Env) (string, *E, *E, bool) {
	init, ok := s.Init.(*ast.AssignStmt)
	if !ok || init.Tok != token.DEFINE || len(init.Lhs) != 1 || len(init.Rhs) != 1 {
		return "", nil, nil, false
	}
	v, ok := init.Lhs[0].(*ast.Ident)
	if !ok {
		return "", nil, nil, false
	}
	lo, ok := x.evalInt(init.Rhs[0], env)
	if !ok {
		return "", nil, nil, false
	}
	c, ok := s.Cond.(*ast.BinaryExpr)
	if !ok || !isIdent(c.X, v.Name) || (c.Op != token.LSS && c.Op != token.LEQ) {
		return "", nil, nil, false
	}
	hi, ok := x.evalInt(c.Y, env)
	if !ok {
		return "", nil, nil, false
	}
	if c.Op == token.LEQ {
		hi = bin("add", hi, konst(1))
	}
	p, ok := s.Post.(*ast.IncDecStmt)
	if !ok || p.Tok != token.INC || !isIdent(p.X, v.Name) {
		return "", nil, nil, false
	}
	return v.Name, lo, hi, true
}

func (x *X) readsOf(e ast.Expr, env *Env) []Read {
	switch t := e.(type) {
	case *ast.ParenExpr:
		return x.readsOf(t.X, env)
	case *ast.Ident:
		if v, ok := env.lookup(t.Name); ok && v.Read != nil {
			return []Read{*v.Read}
		}
	case *ast.IndexExpr:
		if i, ok := x.evalInt(t.Index, env); ok {
			return []Read{{Base: x.ref(t.X, env), Idx: i}}
		}
	case *ast.CallExpr:
		var out []Read
		for _, a := range t.Args {
			if i, ok := x.evalInt(a, env); ok {
				out = append(out, Read{Base: x.ref(t.Fun, env) + "()", Idx: i})
			}
		}
		return out
	case *ast.UnaryExpr:
		return x.readsOf(t.X, env)
	case *ast.CompositeLit:
		var out []Read
		for _, el := range t.Elts {
			if kv, ok := el.(*ast.KeyValueExpr); ok {
				if i, ok := x.evalInt(kv.Value, env); ok {
					out = append(out, Read{Base: x.src(t.Type) + "." + x.src(kv.Key), Idx: i})
				}
			}
		}
		return out
	}
	return nil
}

// record calls of the user callback inside e
func (x *X) callbacks(e ast.Expr, env *Env) {
	ast.Inspect(e, func(n ast.Node) bool {
		call, ok := n.(*ast.CallExpr)
		if !ok {
			return true
		}
		id, ok := call.Fun.(*ast.Ident)
		if !ok {
			return true
		}
		if v, ok := env.lookup(id.Name); !ok || !v.Cb {
			return true
		}
		if x.curLoop == nil {
			x.fail("callback called outside an element loop")
			return false
		}
		cb := CbCall{}
		if len(call.Args) > 0 {
			if i, ok := x.evalInt(call.Args[0], env); ok {
				cb.Idx = i
			}
		}
		if cb.Idx == nil {
			x.fail("callback index is not an integer expression: %s", x.src(call))
			return false
		}
		for _, a := range call.Args[1:] {
			cb.Reads = append(cb.Reads, x.readsOf(a, env)...)
		}
		x.curLoop.Calls = append(x.curLoop.Calls, cb)
		return false
	})
}

func (x *X) stmt(st ast.Stmt, env *Env) {
	switch s := st.(type) {
	case *ast.BlockStmt:
		x.block(s.List, newEnv(env))
	case *ast.DeclStmt:
		if gd, ok := s.Decl.(*ast.GenDecl); ok {
			for _, sp := range gd.Specs {
				if vs, ok := sp.(*ast.ValueSpec); ok {
					for i, n := range vs.Names {
						switch {
						case i < len(vs.Values):
							env.define(n.Name, x.value(vs.Values[i], env))
						case isIdent(vs.Type, "int"):
							env.define(n.Name, Val{Int: konst(0)})
						default:
							env.define(n.Name, Val{Ref: n.Name})
						}
					}
				}
			}
		}
	case *ast.AssignStmt:
		for _, r := range s.Rhs {
			x.callbacks(r, env)
		}
		set := func(l ast.Expr, v Val) {
			switch t := l.(type) {
			case *ast.Ident:
				if t.Name == "_" {
					return
				}
				if s.Tok == token.DEFINE {
					env.define(t.Name, v)
				} else {
					env.assign(t.Name, v)
				}
			case *ast.IndexExpr:
				if i, ok := x.evalInt(t.Index, env); ok && x.curLoop != nil {
					x.curLoop.Writes = append(x.curLoop.Writes, Read{Base: x.ref(t.X, env), Idx: i})
				}
			}
		}
		switch {
		case s.Tok == token.ADD_ASSIGN || s.Tok == token.SUB_ASSIGN || s.Tok == token.MUL_ASSIGN:
			if len(s.Lhs) == 1 && len(s.Rhs) == 1 {
				a, ok1 := x.evalInt(s.Lhs[0], env)
				b, ok2 := x.evalInt(s.Rhs[0], env)
				if id, ok := s.Lhs[0].(*ast.Ident); ok && ok1 && ok2 {
					op := map[token.Token]string{token.ADD_ASSIGN: "add", token.SUB_ASSIGN: "sub", token.MUL_ASSIGN: "mul"}[s.Tok]
					env.assign(id.Name, Val{Int: bin(op, a, b)})
				} else if ok && ok1 {
					x.fail("integer variable %s updated with a value the translator cannot follow", id.Name)
				}
			}
		case len(s.Lhs) == len(s.Rhs):
			vals := make([]Val, len(s.Rhs))
			for i, r := range s.Rhs {
				vals[i] = x.value(r, env)
			}
			for i, l := range s.Lhs {
				set(l, vals[i])
			}
		case len(s.Rhs) == 1:
			if call, ok := s.Rhs[0].(*ast.CallExpr); ok {
				if fd := x.callee(call, env); fd != nil {
					if rets, ok := x.inline(fd, call, env); ok && len(rets) == len(s.Lhs) {
						for i, l := range s.Lhs {
							set(l, rets[i])
						}
						return
					}
				}
			}
			for _, l := range s.Lhs {
				if id, ok := l.(*ast.Ident); ok {
					set(l, Val{Ref: id.Name})
				}
			}
		}
	case *ast.IncDecStmt:
		if id, ok := s.X.(*ast.Ident); ok {
			if v, ok := env.lookup(id.Name); ok && v.Int != nil {
				op := "add"
				if s.Tok == token.DEC {
					op = "sub"
				}
				env.assign(id.Name, Val{Int: bin(op, v.Int, konst(1))})
			}
		}
	case *ast.ExprStmt:
		x.callbacks(s.X, env)
		if call, ok := s.X.(*ast.CallExpr); ok {
			if fd := x.callee(call, env); fd != nil {
				x.inline(fd, call, env)
			}
		}
	case *ast.GoStmt:
		x.ev.Gos++
		was := x.inWorker
		x.inWorker = true
		mark := len(x.path)
		switch f := s.Call.Fun.(type) {
		case *ast.FuncLit:
			fe := newEnv(env.clone())
			i := 0
			for _, p := range f.Type.Params.List {
				for _, n := range p.Names {
					if i < len(s.Call.Args) {
						fe.define(n.Name, x.value(s.Call.Args[i], env))
					}
					i++
				}
			}
			x.block(f.Body.List, fe)
		default:
			if fd := x.callee(s.Call, env); fd != nil {
				x.inline(fd, s.Call, env)
			} else {
				x.fail("go statement starts something the translator cannot follow: %s", x.src(s.Call.Fun))
			}
		}
		x.truncate(mark)
		x.inWorker = was
	case *ast.DeferStmt:
		// wg.Done()
	case *ast.SwitchStmt:
		if s.Init != nil {
			x.stmt(s.Init, env)
		}
		tag := ""
		if s.Tag != nil {
			tag = x.ref(s.Tag, env)
		}
		touched := assigned(s.Body)
		for _, cl := range s.Body.List {
			cc := cl.(*ast.CaseClause)
			label := tag + "==default"
			if len(cc.List) > 0 {
				parts := make([]string, len(cc.List))
				for i, e := range cc.List {
					parts[i] = x.ref(e, env)
				}
				label = tag + "==" + strings.Join(parts, "|")
			}
			mark := len(x.path)
			x.push(&C{K: "opaque", Text: label})
			x.block(cc.Body, newEnv(env.clone()))
			x.truncate(mark)
		}
		for n := range touched {
			if v, ok := env.lookup(n); ok && v.Int != nil {
				x.fail("integer variable %s assigned inside a switch", n)
			}
		}
	case *ast.ForStmt:
		v, lo, hi, ok := x.forHeader(s, env)
		if !ok {
			x.fail("loop header not of the form  for v := lo; v < hi; v++ : %s", x.src(s.Init))
			return
		}
		if containsGo(s.Body) {
			for n := range assigned(s.Body) {
				if _, defined := env.lookup(n); defined {
					if val, _ := env.lookup(n); val.Int != nil {
						x.fail("integer variable %s is carried from one iteration of the dispatch loop to the next", n)
					}
				}
			}
			x.ev.Disp = append(x.ev.Disp, Dispatch{Guarded: x.snapshot(), Lo: lo, Hi: hi})
			be := newEnv(env)
			be.define(v, Val{Int: atom("@w")})
			mark := len(x.path)
			x.block(s.Body.List, be)
			x.truncate(mark)
			return
		}
		x.elementLoop(lo, hi, s.Body, env, func(be *Env) { be.define(v, Val{Int: atom("@k")}) })
	case *ast.RangeStmt:
		if containsGo(s.Body) {
			x.fail("range loop starting goroutines is not supported")
			return
		}
		base := x.ref(s.X, env)
		hi := atom("len(" + base + ")")
		x.elementLoop(konst(0), hi, s.Body, env, func(be *Env) {
			if id, ok := s.Key.(*ast.Ident); ok && id.Name != "_" {
				be.define(id.Name, Val{Int: atom("@k")})
			}
			if id, ok := s.Value.(*ast.Ident); ok && id.Name != "_" {
				be.define(id.Name, Val{Read: &Read{Base: base, Idx: atom("@k")}})
			}
		})
	}
}

func (x *X) elementLoop(lo, hi *E, body *ast.BlockStmt, env *Env, bind func(*Env)) {
	if x.curLoop != nil {
		x.fail("nested element loops")
		return
	}
	for n := range assigned(body) {
		if val, ok := env.lookup(n); ok && val.Int != nil {
			x.fail("integer variable %s is carried from one iteration of an element loop to the next", n)
		}
	}
	l := &Loop{Guarded: x.snapshot(), InWorker: x.inWorker, Lo: lo, Hi: hi}
	x.curLoop = l
	be := newEnv(env)
	bind(be)
	mark := len(x.path)
	x.block(body.List, be)
	x.truncate(mark)
	x.curLoop = nil
	x.ev.Loops = append(x.ev.Loops, l)
}

// ------------------------------------------------------------------ driver
func (x *X) run(fd *ast.FuncDecl) (*Events, string) {
	x.ev = &Events{}
	x.path, x.labels, x.inWorker, x.curLoop, x.depth = nil, nil, false, nil, 0
	x.fn = fd.Name.Name
	env := newEnv(nil)
	if fd.Recv != nil && len(fd.Recv.List[0].Names) == 1 {
		env.define(fd.Recv.List[0].Names[0].Name, Val{Ref: "m"})
	}
	pool := ""
	for _, f := range fd.Type.Params.List {
		for _, n := range f.Names {
			switch t := f.Type.(type) {
			case *ast.FuncType:
				env.define(n.Name, Val{Cb: true})
			case *ast.Ident:
				if t.Name == "int" {
					env.define(n.Name, Val{Int: atom("@s")})
					pool = n.Name
				} else {
					env.define(n.Name, Val{Ref: n.Name})
				}
			default:
				env.define(n.Name, Val{Ref: n.Name})
			}
		}
	}
	x.block(fd.Body.List, env)
	return x.ev, pool
}

type site struct {
	name  string
	ev    *Events
	atoms map[string]bool
}

func collectAtoms(ev *Events) map[string]bool {
	out := map[string]bool{}
	g := func(g Guarded) {
		for _, c := range g.Path {
			atomsC(c, out)
		}
	}
	for _, p := range ev.Panics {
		g(p)
	}
	for _, d := range ev.Delegs {
		g(d.Guarded)
	}
	for _, d := range ev.Disp {
		g(d.Guarded)
		atomsE(d.Lo, out)
		atomsE(d.Hi, out)
	}
	for _, l := range ev.Loops {
		g(l.Guarded)
		atomsE(l.Lo, out)
		atomsE(l.Hi, out)
	}
	for _, k := range []string{"@s", "@w", "@k"} {
		delete(out, k)
	}
	return out
}

func coqString(s string) string { return "\"" + strings.ReplaceAll(s, "\"", "\"\"") + "\"" }

func pathCoq(g Guarded, nm namer) string {
	out := "true"
	for _, c := range g.Path {
		if c != nil {
			out = "(andb " + out + " " + c.coq(nm) + ")"
		}
	}
	return out
}
func labelOf(g Guarded) string {
	var ls []string
	for _, l := range g.Labels {
		if l != "" && !strings.HasPrefix(l, "!(") {
			ls = append(ls, l)
		}
	}
	return strings.Join(ls, " & ")
}

func main() {
	repo := flag.String("repo", "/repo", "repository under test")
	out := flag.String("o", "", "output .v file")
	flag.Parse()
	dir := filepath.Join(*repo, "modeling")
	fset := token.NewFileSet()
	pkgs, err := parser.ParseDir(fset, dir, func(fi os.FileInfo) bool { return !strings.HasSuffix(fi.Name(), "_test.go") }, 0)
	if err != nil {
		fmt.Fprintln(os.Stderr, "par2coq:", err)
		os.Exit(1)
	}
	x := &X{fset: fset, funcs: map[string]*ast.FuncDecl{}}
	var files []string
	for _, p := range pkgs {
		for fn, f := range p.Files {
			files = append(files, fn)
			for _, d := range f.Decls {
				if fd, ok := d.(*ast.FuncDecl); ok {
					if fd.Recv != nil {
						// methods of Mesh only
						t := fd.Recv.List[0].Type
						if st, ok := t.(*ast.StarExpr); ok {
							t = st.X
						}
						if !isIdent(t, "Mesh") {
							continue
						}
					}
					x.funcs[fd.Name.Name] = fd
				}
			}
		}
	}
	const suffix = "ParallelWithPoolSize"
	var names []string
	for n, fd := range x.funcs {
		if strings.HasSuffix(n, suffix) && fd.Recv != nil {
			names = append(names, n)
		}
	}
	sort.Strings(names)
	if len(names) == 0 {
		fmt.Fprintln(os.Stderr, "par2coq: no *ParallelWithPoolSize method of Mesh found in", dir)
		os.Exit(1)
	}

	var b strings.Builder
	fmt.Fprintf(&b, "(* GENERATED by tools/par2coq from modeling/*.go (methods of Mesh) -- do not edit.\n")
	fmt.Fprintf(&b, "   Regenerated on every `bin/check C10` run from $VERIF_REPO; Par/SitesProofs.v proves the partition\n")
	fmt.Fprintf(&b, "   theorem against these terms.  a = element count atom, s = pool size, w = dispatch variable,\n")
	fmt.Fprintf(&b, "   k = element loop variable. *)\n")
	fmt.Fprintf(&b, "From Coq Require Import ZArith List String Bool.\nFrom PF Require Import Par.Sites.\nImport ListNotations.\nOpen Scope string_scope.\nOpen Scope Z_scope.\n\n")

	nm := func(total string) namer {
		return func(n string) string {
			switch n {
			case "@s":
				return "s"
			case "@w":
				return "w"
			case "@k":
				return "k"
			}
			if n == total {
				return "a"
			}
			return "UNBOUND_ATOM"
		}
	}
	emitLoops := func(ev *Events, total string) string {
		var ls []string
		for _, l := range ev.Loops {
			var cbs, rds, wrs []string
			for _, c := range l.Calls {
				cbs = append(cbs, "(fun k => "+c.Idx.coq(nm(total))+")")
				for _, r := range c.Reads {
					rds = append(rds, "("+coqString(r.Base)+", fun k => "+r.Idx.coq(nm(total))+")")
				}
			}
			for _, w := range l.Writes {
				wrs = append(wrs, "("+coqString(w.Base)+", fun k => "+w.Idx.coq(nm(total))+")")
			}
			ls = append(ls, fmt.Sprintf("    {| wl_label := %s; wl_in_worker := %v;\n       wl_guard := fun a s w => %s;\n       wl_lo := fun a s w => %s;\n       wl_hi := fun a s w => %s;\n       wl_cb := [%s];\n       wl_rd := [%s];\n       wl_wr := [%s] |}",
				coqString(labelOf(l.Guarded)), l.InWorker, pathCoq(l.Guarded, nm(total)), l.Lo.coq(nm(total)), l.Hi.coq(nm(total)),
				strings.Join(cbs, "; "), strings.Join(rds, "; "), strings.Join(wrs, "; ")))
		}
		return "[\n" + strings.Join(ls, ";\n") + "\n  ]"
	}
	totalOf := func(name string, ev *Events) string {
		at := collectAtoms(ev)
		var ks []string
		for k := range at {
			ks = append(ks, k)
		}
		sort.Strings(ks)
		if len(ks) > 1 {
			x.errs = append(x.errs, fmt.Sprintf("%s: more than one integer source besides the pool size: %v", name, ks))
		}
		if len(ks) == 0 {
			return ""
		}
		return ks[0]
	}

	var parNames, seqNames, wrapNames []string
	for _, n := range names {
		base := strings.TrimSuffix(n, suffix)
		ev, _ := x.run(x.funcs[n])
		total := totalOf(n, ev)
		var panics, delegs []string
		target := ""
		for _, p := range ev.Panics {
			panics = append(panics, pathCoq(p, nm(total)))
		}
		for _, d := range ev.Delegs {
			delegs = append(delegs, pathCoq(d.Guarded, nm(total)))
			target = d.Target
		}
		or := func(xs []string) string {
			out := "false"
			for _, s := range xs {
				out = "(orb " + out + " " + s + ")"
			}
			return out
		}
		dlo, dhi, dguard := "0", "0", "false"
		if len(ev.Disp) == 1 {
			dlo, dhi, dguard = ev.Disp[0].Lo.coq(nm(total)), ev.Disp[0].Hi.coq(nm(total)), pathCoq(ev.Disp[0].Guarded, nm(total))
		} else {
			x.errs = append(x.errs, fmt.Sprintf("%s: %d dispatch loops (expected one loop that contains the go statement)", n, len(ev.Disp)))
		}
		fmt.Fprintf(&b, "Definition %s_site : psite := {|\n  ps_name := %s; ps_atom := %s;\n  ps_panics := fun a s => %s;\n  ps_delegates := fun a s => %s; ps_delegate_to := %s;\n  ps_guard := fun a s => %s;\n  ps_disp_lo := fun a s => %s; ps_disp_hi := fun a s => %s;\n  ps_gos := %d%%nat; ps_result := %s;\n  ps_loops := %s\n|}.\n\n",
			n, coqString(n), coqString(total), or(panics), or(delegs), coqString(target), dguard, dlo, dhi, ev.Gos, coqString(strings.Join(ev.Results, " | ")), emitLoops(ev, total))
		parNames = append(parNames, n+"_site")

		if fd := x.funcs[base]; fd != nil {
			ev, _ := x.run(fd)
			total := totalOf(base, ev)
			fmt.Fprintf(&b, "Definition %s_site : ssite := {|\n  ss_name := %s; ss_atom := %s; ss_result := %s;\n  ss_loops := %s\n|}.\n\n",
				base, coqString(base), coqString(total), coqString(strings.Join(ev.Results, " | ")), emitLoops(ev, total))
			seqNames = append(seqNames, base+"_site")
		} else {
			x.errs = append(x.errs, fmt.Sprintf("%s has no sequential counterpart %s", n, base))
		}
		if fd := x.funcs[base+"Parallel"]; fd != nil {
			ev, _ := x.run(fd)
			tgt, arg := "", ""
			if len(ev.Delegs) == 1 {
				tgt = ev.Delegs[0].Target
				for _, a := range ev.Delegs[0].Args {
					if strings.Contains(a, "NumCPU") {
						arg = a
					}
				}
			}
			fmt.Fprintf(&b, "Definition %sParallel_wrapper : wrapper := {| wr_name := %s; wr_target := %s; wr_pool := %s |}.\n\n",
				base, coqString(base+"Parallel"), coqString(tgt), coqString(arg))
			wrapNames = append(wrapNames, base+"Parallel_wrapper")
		}
	}
	fmt.Fprintf(&b, "Definition par_sites : list psite := [%s].\n", strings.Join(parNames, "; "))
	fmt.Fprintf(&b, "Definition seq_sites : list ssite := [%s].\n", strings.Join(seqNames, "; "))
	fmt.Fprintf(&b, "Definition wrappers : list wrapper := [%s].\n", strings.Join(wrapNames, "; "))

	if len(x.errs) > 0 {
		for _, e := range x.errs {
			fmt.Fprintln(os.Stderr, "par2coq:", e)
		}
		if *out != "" {
			os.Remove(*out)
		}
		os.Exit(1)
	}
	if *out == "" {
		fmt.Print(b.String())
		return
	}
	if old, err := os.ReadFile(*out); err == nil && string(old) == b.String() {
		return // unchanged: keep the timestamp (make stays a no-op)
	}
	if err := os.WriteFile(*out, []byte(b.String()), 0o644); err != nil {
		fmt.Fprintln(os.Stderr, "par2coq:", err)
		os.Exit(1)
	}
}
