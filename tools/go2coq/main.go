// go2coq translates a deliberately narrow subset of Go — data tables and straight-line numeric
// functions — into Gallina definitions that are generic in the scalar carrier (class Carrier of
// coq/theories/Geom/Vec.v).  Anything outside the subset is an error naming the construct and its
// position; no output file is written for that module (a stale one is removed), so the Coq build
// that depends on it fails and the check reports the translation obligation as broken.
//
//	go2coq -repo /repo -out coq/gen tools/go2coq/specs/*.spec
//
// See notes/go2coq.md for the subset, the spec-file format and the output conventions.
package main

import (
	"bytes"
	"flag"
	"fmt"
	"go/ast"
	"go/parser"
	"go/token"
	"os"
	"path/filepath"
	"sort"
	"strings"
)

// Module is one generated Coq file = (part of) one Go package.
type Module struct {
	Name       string // Coq file / module name, e.g. "Mat"
	Dir        string // package directory relative to the repository root
	ImportPath string
	Pkg        *Package
	Want       []string // "Identity", "Matrix4x4.Add" in spec order
	Tables     []string // "edges" or "Func.local"
	Types      []string // struct types whose Record this module owns (`type` lines)
	SpecFile   string

	// filled during translation
	order    []string          // emitted definitions, dependency order
	defs     map[string]string // key -> Coq text
	state    map[string]int    // 0 unseen, 1 in progress, 2 done
	structs  []*Struct         // records to emit, in order of first use
	imports  map[string]bool   // other generated modules referenced
	tableOut []string
	emitted  bool
	failed   error
}

// Package is a parsed Go package directory (non-test files).
type Package struct {
	Dir        string
	ImportPath string
	Fset       *token.FileSet
	Files      []*ast.File
	FileOf     map[ast.Node]*ast.File
	Funcs      map[string]*ast.FuncDecl // "Name" or "Type.Name"
	Types      map[string]*ast.TypeSpec
	Values     map[string]*ast.ValueSpec // package-level var/const by name
	structs    map[string]*Struct
}

type World struct {
	Repo       string
	ModulePath string              // from go.mod
	Pkgs       map[string]*Package // by import path
	Mods       []*Module
	ModByPath  map[string]*Module // import path -> module
	Panicky    map[string]bool    // "Module.CoqName" of the translated functions that have a _panics companion
}

type Terr struct {
	Pos token.Position
	Msg string
}

func (e *Terr) Error() string { return fmt.Sprintf("%s: %s", e.Pos, e.Msg) }

func main() {
	repo := flag.String("repo", "/repo", "repository root")
	out := flag.String("out", "", "output directory for the generated .v files")
	flag.Parse()
	if *out == "" || flag.NArg() == 0 {
		fmt.Fprintln(os.Stderr, "usage: go2coq -repo <dir> -out <dir> <spec files>")
		os.Exit(2)
	}
	w := &World{Repo: *repo, Pkgs: map[string]*Package{}, ModByPath: map[string]*Module{}}
	if err := w.readGoMod(); err != nil {
		fmt.Fprintln(os.Stderr, "go2coq:", err)
		os.Exit(2)
	}
	for _, sf := range flag.Args() {
		if err := w.readSpec(sf); err != nil {
			fmt.Fprintln(os.Stderr, "go2coq:", err)
			os.Exit(2)
		}
	}
	os.MkdirAll(*out, 0o755)
	failed := 0
	for _, m := range w.Mods {
		m.defs, m.state, m.imports = map[string]string{}, map[string]int{}, map[string]bool{}
		p, err := w.loadPkg(m.ImportPath)
		if err != nil {
			m.failed = err
			continue
		}
		m.Pkg = p
	}
	for _, m := range w.Mods {
		if m.failed == nil {
			m.failed = w.translateModule(m)
		}
	}
	for _, m := range w.Mods {
		target := filepath.Join(*out, m.Name+".v")
		err := m.failed
		var text string
		if err == nil {
			text = w.emit(m)
			m.emitted = true
		}
		if err != nil {
			failed++
			msg := err.Error()
			if w.Repo != "" {
				msg = strings.ReplaceAll(msg, w.Repo+"/", "")
			}
			fmt.Fprintf(os.Stderr, "go2coq: module %s: TRANSLATION-ERROR %s\n", m.Name, msg)
			os.Remove(target)
			continue
		}
		old, rerr := os.ReadFile(target)
		if rerr == nil && bytes.Equal(old, []byte(text)) {
			continue // unchanged: keep the timestamp so make stays a no-op
		}
		if err := os.WriteFile(target, []byte(text), 0o644); err != nil {
			fmt.Fprintln(os.Stderr, "go2coq:", err)
			os.Exit(2)
		}
		fmt.Printf("go2coq: wrote %s\n", target)
	}
	if failed > 0 {
		os.Exit(1)
	}
}

func (w *World) readGoMod() error {
	b, err := os.ReadFile(filepath.Join(w.Repo, "go.mod"))
	if err != nil {
		return err
	}
	for _, l := range strings.Split(string(b), "\n") {
		l = strings.TrimSpace(l)
		if strings.HasPrefix(l, "module ") {
			w.ModulePath = strings.TrimSpace(strings.TrimPrefix(l, "module "))
			return nil
		}
	}
	return fmt.Errorf("no module line in go.mod")
}

func (w *World) readSpec(path string) error {
	b, err := os.ReadFile(path)
	if err != nil {
		return err
	}
	var cur *Module
	for ln, l := range strings.Split(string(b), "\n") {
		if i := strings.Index(l, "#"); i >= 0 {
			l = l[:i]
		}
		f := strings.Fields(l)
		if len(f) == 0 {
			continue
		}
		bad := func() error { return fmt.Errorf("%s:%d: bad spec line %q", path, ln+1, l) }
		switch f[0] {
		case "module":
			if len(f) != 3 {
				return bad()
			}
			cur = &Module{Name: f[1], Dir: f[2], ImportPath: w.ModulePath + "/" + f[2], SpecFile: filepath.Base(path)}
			for _, m := range w.Mods {
				if m.Name == cur.Name {
					return fmt.Errorf("%s:%d: module %s declared twice", path, ln+1, cur.Name)
				}
			}
			w.Mods = append(w.Mods, cur)
			if _, dup := w.ModByPath[cur.ImportPath]; !dup {
				w.ModByPath[cur.ImportPath] = cur
			}
		case "func", "method":
			if cur == nil || len(f) != 2 {
				return bad()
			}
			cur.Want = append(cur.Want, f[1])
		case "table":
			if cur == nil || len(f) != 2 {
				return bad()
			}
			cur.Tables = append(cur.Tables, f[1])
		case "type":
			if cur == nil || len(f) != 2 {
				return bad()
			}
			cur.Types = append(cur.Types, f[1])
		default:
			return bad()
		}
	}
	return nil
}

// loadPkg parses a package of the repository (by import path) on demand.
func (w *World) loadPkg(importPath string) (*Package, error) {
	if p, ok := w.Pkgs[importPath]; ok {
		return p, nil
	}
	if !strings.HasPrefix(importPath, w.ModulePath+"/") && importPath != w.ModulePath {
		return nil, fmt.Errorf("package %s is outside the repository", importPath)
	}
	rel := strings.TrimPrefix(strings.TrimPrefix(importPath, w.ModulePath), "/")
	dir := filepath.Join(w.Repo, rel)
	fset := token.NewFileSet()
	entries, err := os.ReadDir(dir)
	if err != nil {
		return nil, err
	}
	p := &Package{Dir: rel, ImportPath: importPath, Fset: fset, FileOf: map[ast.Node]*ast.File{},
		Funcs: map[string]*ast.FuncDecl{}, Types: map[string]*ast.TypeSpec{}, Values: map[string]*ast.ValueSpec{},
		structs: map[string]*Struct{}}
	var names []string
	for _, e := range entries {
		n := e.Name()
		if e.IsDir() || !strings.HasSuffix(n, ".go") || strings.HasSuffix(n, "_test.go") || strings.HasSuffix(n, "_verif.go") {
			continue
		}
		names = append(names, n)
	}
	sort.Strings(names)
	for _, n := range names {
		f, err := parser.ParseFile(fset, filepath.Join(dir, n), nil, parser.SkipObjectResolution)
		if err != nil {
			return nil, err
		}
		p.Files = append(p.Files, f)
		for _, d := range f.Decls {
			switch d := d.(type) {
			case *ast.FuncDecl:
				key := d.Name.Name
				if d.Recv != nil && len(d.Recv.List) == 1 {
					key = recvTypeName(d.Recv.List[0].Type) + "." + d.Name.Name
				}
				p.Funcs[key] = d
				p.FileOf[d] = f
			case *ast.GenDecl:
				for _, s := range d.Specs {
					switch s := s.(type) {
					case *ast.TypeSpec:
						p.Types[s.Name.Name] = s
						p.FileOf[s] = f
					case *ast.ValueSpec:
						for _, id := range s.Names {
							p.Values[id.Name] = s
						}
						p.FileOf[s] = f
					}
				}
			}
		}
	}
	w.Pkgs[importPath] = p
	return p, nil
}

func recvTypeName(e ast.Expr) string {
	switch e := e.(type) {
	case *ast.StarExpr:
		return recvTypeName(e.X)
	case *ast.Ident:
		return e.Name
	case *ast.IndexExpr:
		return recvTypeName(e.X)
	}
	return "?"
}

// imports of one file: local name -> import path
func fileImports(f *ast.File) map[string]string {
	m := map[string]string{}
	for _, im := range f.Imports {
		path := strings.Trim(im.Path.Value, "\"")
		name := path[strings.LastIndex(path, "/")+1:]
		if im.Name != nil {
			name = im.Name.Name
		}
		m[name] = path
	}
	return m
}

func (w *World) translateModule(m *Module) error {
	for _, t := range m.Tables {
		if err := w.translateTable(m, t); err != nil {
			return err
		}
	}
	for _, key := range m.Want {
		if err := w.need(m, key, token.Position{Filename: m.SpecFile}); err != nil {
			return err
		}
	}
	return nil
}

// need translates function `key` of module m (and, recursively, what it calls) once.
func (w *World) need(m *Module, key string, from token.Position) error {
	switch m.state[key] {
	case 2:
		return nil
	case 1:
		return &Terr{from, "recursive function " + key + " (outside the subset)"}
	}
	fd, ok := m.Pkg.Funcs[key]
	if !ok {
		return &Terr{from, fmt.Sprintf("function %s not found in package %s", key, m.Pkg.Dir)}
	}
	m.state[key] = 1
	text, canPanic, err := w.translateFunc(m, key, fd)
	if err != nil {
		return err
	}
	if canPanic {
		if w.Panicky == nil {
			w.Panicky = map[string]bool{}
		}
		w.Panicky[m.Name+"."+coqFuncName(key)] = true
	}
	m.state[key] = 2
	m.defs[key] = text
	m.order = append(m.order, key)
	return nil
}

func coqFuncName(key string) string { return strings.ReplaceAll(key, ".", "_") }

func (w *World) emit(m *Module) string {
	var b strings.Builder
	var srcs []string
	seen := map[string]bool{}
	for _, key := range m.order {
		f := m.Pkg.FileOf[m.Pkg.Funcs[key]]
		n := filepath.Base(m.Pkg.Fset.Position(f.Pos()).Filename)
		if !seen[n] {
			seen[n] = true
			srcs = append(srcs, n)
		}
	}
	sort.Strings(srcs)
	fmt.Fprintf(&b, "(* GENERATED by tools/go2coq (spec %s) from %s/{%s} -- do not edit.\n", m.SpecFile, m.Dir, strings.Join(srcs, ","))
	fmt.Fprintf(&b, "   One definition per Go function, generic in the scalar carrier (PF.Geom.Vec.Carrier). *)\n")
	fmt.Fprintf(&b, "From Coq Require Import ZArith List Bool.\nFrom PF Require Import Geom.Vec.\n")
	var imps []string
	for i := range m.imports {
		imps = append(imps, i)
	}
	sort.Strings(imps)
	for _, i := range imps {
		fmt.Fprintf(&b, "From PFGen Require %s.\n", i)
	}
	fmt.Fprintf(&b, "Import ListNotations.\nLocal Open Scope carrier_scope.\n\n")
	for _, t := range m.tableOut {
		b.WriteString(t)
		b.WriteString("\n")
	}
	if len(m.structs) == 0 && len(m.order) == 0 {
		return b.String()
	}
	fmt.Fprintf(&b, "Section Gen.\nContext {F : Type} {FO : Carrier F}.\n\n")
	for _, s := range m.structs {
		fmt.Fprintf(&b, "(* %s *)\nRecord %s : Type := %s {", s.Origin, s.Name, s.ctor())
		for i, f := range s.Fields {
			if i > 0 {
				b.WriteString(";")
			}
			fmt.Fprintf(&b, "\n  %s : %s", s.proj(f.Name), f.T.coq(m))
		}
		fmt.Fprintf(&b, "\n}.\n\n")
	}
	for _, key := range m.order {
		b.WriteString(m.defs[key])
		b.WriteString("\n")
	}
	fmt.Fprintf(&b, "End Gen.\n")
	for _, s := range m.structs {
		fmt.Fprintf(&b, "Arguments %s : clear implicits.\n", s.Name)
	}
	return b.String()
}
