package main

// Building a list with append ("forAppend" idiom) and variadic calls.
//
//	ys := make([]T, 0, <any int expression>)          ys  := (@nil T)            (also make([]T, 0); the capacity is
//	                                                                              type-checked and otherwise ignored)
//	for i := K; i < len(xs); i++ {                    ys' := map (fun i : nat =>
//	    v := xs[i-c]      (c a literal <= K)                    let v := nth (i - c) xs <zero> in
//	    w := xs[i]                                              let w := nth i xs <zero> in
//	    ys = append(ys, E)                                      E)
//	}                                                         (seq K (length xs - K))
//
// K is a non-negative literal, xs a list variable, ys a list variable that provably still holds the empty list of its
// make (it is a fresh Coq name at every assignment, so any other store in between clears that fact), the statements
// before the append are `name := <expression>` definitions of new names, and the index i occurs only as xs[i] and
// xs[i-c] (so every index is within range: K <= i < len(xs), 0 <= i-c).  The trip count is len(xs)-K when K <= len(xs)
// and 0 otherwise, which is exactly `seq K (length xs - K)` with the truncated subtraction of nat.  A different bound
// (len(xs)-1, a variable ...), a different step, a non-literal start, xs[i+c], i used as a number, an append to a list
// that is not known to be empty, several appends, or any other statement in the body are TRANSLATION-ERRORs.
//
//	f(a, xs...)       (f declared with a variadic last parameter)      (f a xs)
//	f(a, x1, x2)                                                        (f a [x1; x2])          f(a)  ->  (f a (@nil T))
//
// Calls of functions that have a <f>_panics companion (explicit panic statements): the caller gets a companion too,
// which is true also when the callee's companion is true for the arguments of the call.  Such a call inside a loop
// body or inside a returned function literal is rejected (the companion has no way to express it).

import (
	"fmt"
	"go/ast"
	"go/token"
	"strconv"
	"strings"
)

// isAppendBody: the last statement of the loop body is  ys = append(...)
func isAppendBody(b *ast.BlockStmt) (*ast.AssignStmt, bool) {
	if b == nil || len(b.List) == 0 {
		return nil, false
	}
	as, ok := b.List[len(b.List)-1].(*ast.AssignStmt)
	if !ok || len(as.Lhs) != 1 || len(as.Rhs) != 1 {
		return nil, false
	}
	call, ok := as.Rhs[0].(*ast.CallExpr)
	if !ok {
		return nil, false
	}
	id, ok := call.Fun.(*ast.Ident)
	return as, ok && id.Name == "append"
}

// makeEmpty: make([]T, 0) / make([]T, 0, cap)
func (t *fnTr) makeEmpty(call *ast.CallExpr, env *Env) (val, bool, error) {
	if len(call.Args) != 2 && len(call.Args) != 3 {
		return val{}, false, nil
	}
	if l, ok := intLit(call.Args[1]); !ok || l != "0" {
		if len(call.Args) == 3 {
			return val{}, true, t.errf(call, "unsupported make (only make([]T, len(xs)) and make([]T, 0, cap))")
		}
		return val{}, false, nil
	}
	ty, ptr, err := t.resolveType(call.Args[0])
	if err != nil {
		return val{}, true, err
	}
	if ptr || ty.K != KList {
		return val{}, true, t.errf(call, "unsupported make (only slices)")
	}
	if len(call.Args) == 3 {
		// the capacity does not influence any value; it must still be an int expression of the subset
		if _, isLit := intLit(call.Args[2]); !isLit {
			mark := len(t.calleePanics)
			c, err := t.expr(call.Args[2], env)
			if err != nil {
				return val{}, true, err
			}
			if c.ty.K != KInt {
				return val{}, true, t.errf(call.Args[2], "the capacity of make is not an int expression")
			}
			if err := t.noCalleePanicsSince(mark, call.Args[2], "the capacity of make"); err != nil {
				return val{}, true, err
			}
		}
	}
	return val{fmt.Sprintf("(@nil %s)", paren(ty.Elems[0].coq(t.mod))), ty}, true, nil
}

// forAppend: see the head of this file.
func (t *fnTr) forAppend(s *ast.ForStmt, as *ast.AssignStmt, env *Env) ([]string, error) {
	bad := func(n ast.Node, what string) ([]string, error) {
		return nil, t.errf(n, "unsupported statement: append loop (%s; only `for i := K; i < len(xs); i++ { v := xs[i-c]; ...; ys = append(ys, E) }` after ys := make([]T, 0, n))", what)
	}
	init, ok := s.Init.(*ast.AssignStmt)
	if !ok || init.Tok != token.DEFINE || len(init.Lhs) != 1 || len(init.Rhs) != 1 {
		return bad(s, "initialiser")
	}
	iv, ok := init.Lhs[0].(*ast.Ident)
	if !ok || iv.Name == "_" {
		return bad(s, "initialiser")
	}
	startLit, ok := intLit(init.Rhs[0])
	if !ok || strings.HasPrefix(startLit, "-") {
		return bad(s, "start index is not a non-negative integer literal")
	}
	start, err := strconv.Atoi(startLit)
	if err != nil || start > 1<<20 {
		return bad(s, "start index too large")
	}
	cond, ok := s.Cond.(*ast.BinaryExpr)
	if !ok || cond.Op != token.LSS {
		return bad(s, "condition is not i < len(xs)")
	}
	if ci, ok := cond.X.(*ast.Ident); !ok || ci.Name != iv.Name {
		return bad(s, "condition is not i < len(xs)")
	}
	lc, ok := cond.Y.(*ast.CallExpr)
	if !ok || len(lc.Args) != 1 || lc.Ellipsis != token.NoPos {
		return bad(s, "bound is not len(xs)")
	}
	if lf, ok := lc.Fun.(*ast.Ident); !ok || lf.Name != "len" || env.lookup("len") != nil {
		return bad(s, "bound is not len(xs)")
	}
	xs, ok := lc.Args[0].(*ast.Ident)
	if !ok {
		return bad(s, "bound is not len(xs)")
	}
	xb := env.lookup(xs.Name)
	if xb == nil || xb.ty.K != KList || xb.exploded {
		return bad(s, "bound is not the length of a list variable")
	}
	post, ok := s.Post.(*ast.IncDecStmt)
	if !ok || post.Tok != token.INC {
		return bad(s, "post statement is not i++")
	}
	if pi, ok := post.X.(*ast.Ident); !ok || pi.Name != iv.Name {
		return bad(s, "post statement is not i++")
	}
	// ys = append(ys, E)
	if as.Tok != token.ASSIGN {
		return bad(as, "the append must be assigned with = to the list it extends")
	}
	ys, ok := as.Lhs[0].(*ast.Ident)
	if !ok || ys.Name == "_" || ys.Name == iv.Name || ys.Name == xs.Name {
		return bad(as, "the target of the append is not a separate list variable")
	}
	call := as.Rhs[0].(*ast.CallExpr)
	if env.lookup("append") != nil || call.Ellipsis != token.NoPos || len(call.Args) != 2 {
		return bad(as, "not ys = append(ys, E) with one element")
	}
	if a0, ok := call.Args[0].(*ast.Ident); !ok || a0.Name != ys.Name {
		return bad(as, "append extends a different list than it is assigned to")
	}
	yb := env.lookup(ys.Name)
	if yb == nil || yb.ty.K != KList || yb.exploded {
		return bad(as, ys.Name+" is not a list variable")
	}
	if !yb.emptyLst {
		return bad(as, ys.Name+" is not known to be the empty list of make([]T, 0, n) when the loop starts")
	}
	// the body before the append: definitions of new names
	inner := env.clone().push()
	idxName := t.fresh(iv.Name)
	inner.define(iv.Name, &binding{name: idxName, ty: tInt, natIdx: true, natOf: xs.Name, natMin: start})
	mentions := func(n ast.Node, name string) bool {
		found := false
		ast.Inspect(n, func(m ast.Node) bool {
			switch m := m.(type) {
			case *ast.SelectorExpr: // x.f: only x can be a variable
				ast.Inspect(m.X, func(k ast.Node) bool {
					if id, ok := k.(*ast.Ident); ok && id.Name == name {
						found = true
					}
					return true
				})
				return false
			case *ast.KeyValueExpr:
				ast.Inspect(m.Value, func(k ast.Node) bool {
					if id, ok := k.(*ast.Ident); ok && id.Name == name {
						found = true
					}
					return true
				})
				return false
			case *ast.Ident:
				if m.Name == name {
					found = true
				}
			}
			return true
		})
		return found
	}
	mark := len(t.calleePanics)
	var lets []string
	for _, st := range s.Body.List[:len(s.Body.List)-1] {
		d, ok := st.(*ast.AssignStmt)
		if !ok || d.Tok != token.DEFINE || len(d.Lhs) != 1 || len(d.Rhs) != 1 {
			return bad(st, "a statement before the append is not a definition `name := expression`")
		}
		id, ok := d.Lhs[0].(*ast.Ident)
		if !ok || id.Name == "_" || id.Name == iv.Name || id.Name == xs.Name || id.Name == ys.Name {
			return bad(st, "a definition before the append rebinds the index or one of the lists")
		}
		if _, isMake := isMakeCall(d.Rhs[0], inner); isMake {
			return bad(st, "make inside the loop body")
		}
		if mentions(d.Rhs[0], ys.Name) {
			return bad(st, "the loop body reads "+ys.Name)
		}
		ls, err := t.assign(d, inner)
		if err != nil {
			return nil, err
		}
		lets = append(lets, ls...)
	}
	if mentions(call.Args[1], ys.Name) {
		return bad(as, "the appended element mentions "+ys.Name)
	}
	v, err := t.expr(call.Args[1], inner)
	if err != nil {
		return nil, err
	}
	if !v.ty.eq(yb.ty.Elems[0]) {
		return nil, t.errf(as, "element of type %s appended to %s", v.ty, yb.ty)
	}
	if err := t.noCalleePanicsSince(mark, s, "an append loop"); err != nil {
		return nil, err
	}
	body := " " + v.code
	if len(lets) > 0 {
		body = "\n" + indent(joinLets(lets, v.code), "    ")
	}
	code := fmt.Sprintf("(map (fun %s : nat =>%s) (seq %d (length %s - %d)%%nat))", idxName, body, start, xb.name, start)
	return t.bind(ys.Name, val{code, yb.ty}, env, false, as)
}

// natIndex: xs[i] / xs[i-c] for the index i of an append loop over xs.
func (t *fnTr) natIndex(e *ast.IndexExpr, xs val, env *Env) (val, bool, error) {
	var id *ast.Ident
	off := 0
	switch ix := e.Index.(type) {
	case *ast.Ident:
		id = ix
	case *ast.BinaryExpr:
		l, ok := ix.X.(*ast.Ident)
		if !ok {
			return val{}, false, nil
		}
		if b := env.lookup(l.Name); b == nil || !b.natIdx {
			return val{}, false, nil
		}
		c, isLit := intLit(ix.Y)
		if ix.Op != token.SUB || !isLit || strings.HasPrefix(c, "-") {
			return val{}, true, t.errf(e, "unsupported index expression (the loop index %s only as %s and %s-c, c a literal)", l.Name, l.Name, l.Name)
		}
		n, err := strconv.Atoi(c)
		if err != nil {
			return val{}, true, t.errf(e, "unsupported index offset %s", c)
		}
		id, off = l, n
	default:
		return val{}, false, nil
	}
	b := env.lookup(id.Name)
	if b == nil || !b.natIdx {
		return val{}, false, nil
	}
	if xid, ok := e.X.(*ast.Ident); !ok || xid.Name != b.natOf || env.lookup(xid.Name) == nil || env.lookup(xid.Name).name != xs.code {
		return val{}, true, t.errf(e, "unsupported index expression: the loop index %s indexes a list other than %s (whose length bounds the loop)", id.Name, b.natOf)
	}
	if off > b.natMin {
		return val{}, true, t.errf(e, "unsupported index expression: %s-%d is negative in the first iteration (the loop starts at %d)", id.Name, off, b.natMin)
	}
	z, err := t.zero(xs.ty.Elems[0], e)
	if err != nil {
		return val{}, true, err
	}
	idx := b.name
	if off > 0 {
		idx = fmt.Sprintf("(%s - %d)%%nat", b.name, off)
	}
	return val{fmt.Sprintf("(nth %s %s %s)", idx, xs.code, z), xs.ty.Elems[0]}, true, nil
}

// ---------------------------------------------------------------- panics of callees

// notePanickingCall: the function being translated calls `ref args`, and ref has a companion ref_panics.
func (t *fnTr) notePanickingCall(ref string, args []string, at ast.Node) error {
	if t.inClosure {
		return t.errf(at, "unsupported: call of %s, which can panic, inside a returned function literal", ref)
	}
	t.hasPanic = true
	t.calleePanics = append(t.calleePanics, "("+strings.Join(append([]string{ref + "_panics"}, args...), " ")+")")
	return nil
}

func (t *fnTr) noCalleePanicsSince(mark int, at ast.Node, where string) error {
	if len(t.calleePanics) > mark {
		return t.errf(at, "unsupported: call of a function that can panic (%s) inside %s", t.calleePanics[mark], where)
	}
	return nil
}

// takePanics removes and returns the callee-panic conditions collected since the last call.
func (t *fnTr) takePanics() []string {
	c := t.calleePanics
	t.calleePanics = nil
	return c
}

// guardPanics (second pass only): the code runs only when none of the callees panicked.
func (t *fnTr) guardPanics(conds []string, code string) string {
	if !t.panicMode {
		return code
	}
	for i := len(conds) - 1; i >= 0; i-- {
		if code == "false" {
			code = conds[i]
			continue
		}
		code = fmt.Sprintf("if %s\nthen (* the callee panics *) true\nelse (\n%s)", conds[i], indent(code, "  "))
	}
	return code
}
