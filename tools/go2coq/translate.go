package main

import (
	"fmt"
	"go/ast"
	"go/token"
	"math/big"
	"strings"
)

type val struct {
	code string
	ty   Type
}

type binding struct {
	name     string // Coq name (when not exploded)
	ty       Type
	exploded bool              // struct variable tracked field by field (it is assigned through x.f = e)
	fields   map[string]string // field -> Coq name
	loopOf   string            // loop index of `for i := k; i < len(xs); i++`: the Go name of xs
	elem     string            // ... and the Coq name standing for xs[i]
	elemTy   Type
	lenOf    string // list variable: Coq name of the list parameter whose length it is statically known to have
	natIdx   bool   // index of an append loop `for i := K; i < len(xs); i++` (a Coq nat named `name`)
	natOf    string // ... the Go name of xs
	natMin   int    // ... K (xs[i-c] is allowed for literals c <= K)
	emptyLst bool   // list variable holding the result of make([]T, 0[, cap]) and nothing else: the empty list
}

type Env struct{ scopes []map[string]*binding }

func (e *Env) clone() *Env {
	n := &Env{}
	for _, s := range e.scopes {
		c := map[string]*binding{}
		for k, b := range s {
			nb := *b
			if b.fields != nil {
				nb.fields = map[string]string{}
				for fk, fv := range b.fields {
					nb.fields[fk] = fv
				}
			}
			c[k] = &nb
		}
		n.scopes = append(n.scopes, c)
	}
	return n
}
func (e *Env) push() *Env { e.scopes = append(e.scopes, map[string]*binding{}); return e }
func (e *Env) pop() *Env  { e.scopes = e.scopes[:len(e.scopes)-1]; return e }
func (e *Env) lookup(n string) *binding {
	for i := len(e.scopes) - 1; i >= 0; i-- {
		if b, ok := e.scopes[i][n]; ok {
			return b
		}
	}
	return nil
}
func (e *Env) define(n string, b *binding) { e.scopes[len(e.scopes)-1][n] = b }
func (e *Env) inTop(n string) bool         { _, ok := e.scopes[len(e.scopes)-1][n]; return ok }
func (e *Env) assign(n string, b *binding) {
	for i := len(e.scopes) - 1; i >= 0; i-- {
		if _, ok := e.scopes[i][n]; ok {
			e.scopes[i][n] = b
			return
		}
	}
	e.define(n, b)
}

var coqReserved = map[string]bool{
	"in": true, "as": true, "at": true, "fun": true, "let": true, "match": true, "end": true, "if": true,
	"then": true, "else": true, "forall": true, "exists": true, "return": true, "with": true, "fix": true,
	"cofix": true, "Type": true, "Set": true, "Prop": true, "using": true, "where": true, "for": true,
	"F": true, "FO": true, "IF": true, "mod": true, "exists2": true, "struct": true, "SProp": true,
	"by": true, "do": true, "of": true, "is": true, "lazymatch": true, "multimatch": true, "discriminated": true,
	"Definition": true, "Fixpoint": true, "Theorem": true, "Variable": true, "Hypothesis": true, "list": true, "Z": true,
	"bool": true, "nat": true, "option": true, "Some": true, "None": true, "nil": true, "cons": true, "S": true, "O": true,
	"true": true, "false": true, "negb": true, "andb": true, "orb": true, "pair": true, "fst": true, "snd": true,
}

// fnTr translates one function declaration.
type fnTr struct {
	*fileCtx
	key      string
	used     map[string]bool
	explode  map[string]bool // Go variables assigned through a field selector
	recvName string          // pointer receiver of a result-less method: the function returns it
	recvPtr  bool
	result   Type
	params   []string // rendered "(x : T)"

	closureMode bool // the function returns a function literal: its parameters are appended
	inClosure   bool
	cparams     []string // Coq names of the closure parameters (shared by every returned literal)
	cparamTys   []Type

	hasPanic     bool     // the body contains `if c { panic(..) }` or calls a function that has a _panics companion
	calleePanics []string // conditions `(f_panics args)` of the calls translated since the last statement boundary
	panicMode    bool     // second pass: render the condition under which the Go function panics
}

func (w *World) translateFunc(m *Module, key string, fd *ast.FuncDecl) (string, bool, error) {
	text, hasPanic, err := w.translateFunc2(m, key, fd)
	return text, hasPanic && err == nil, err
}

func (w *World) translateFunc2(m *Module, key string, fd *ast.FuncDecl) (string, bool, error) {
	hasPanic := false
	text, err := w.translateFuncPass(m, key, fd, false, &hasPanic)
	if err != nil || !hasPanic {
		return text, false, err
	}
	// the function can panic: a companion <name>_panics says when (the main definition yields the zero
	// value of its result type there; theorems carry the hypothesis <name>_panics ... = false)
	ptext, err := w.translateFuncPass(m, key, fd, true, &hasPanic)
	if err != nil {
		return "", false, err
	}
	return text + "\n" + ptext, true, nil
}

func (w *World) translateFuncPass(m *Module, key string, fd *ast.FuncDecl, panicMode bool, hasPanic *bool) (string, error) {
	p := m.Pkg
	file := p.FileOf[fd]
	t := &fnTr{fileCtx: &fileCtx{w: w, mod: m, pkg: p, file: file, imps: fileImports(file)}, key: key,
		used: map[string]bool{}, explode: map[string]bool{}, panicMode: panicMode}
	defer func() { *hasPanic = t.hasPanic }()
	if fd.Body == nil {
		return "", t.errf(fd, "function %s has no body", key)
	}
	if fd.Type.TypeParams != nil {
		return "", t.errf(fd, "unsupported generic function %s", key)
	}
	for k := range coqReserved {
		t.used[k] = true
	}
	for k := range p.Funcs {
		t.used[coqFuncName(k)] = true
	}
	for _, tab := range preludeNames {
		t.used[tab] = true
	}
	// which variables are assigned field-wise?
	ast.Inspect(fd.Body, func(n ast.Node) bool {
		if as, ok := n.(*ast.AssignStmt); ok {
			for _, l := range as.Lhs {
				if se, ok := l.(*ast.SelectorExpr); ok {
					if id, ok := se.X.(*ast.Ident); ok {
						t.explode[id.Name] = true
					}
				}
			}
		}
		return true
	})
	var firstLit *ast.FuncLit
	ast.Inspect(fd.Body, func(n ast.Node) bool {
		if _, ok := n.(*ast.FuncLit); ok && firstLit != nil {
			return false // returns inside a literal belong to the literal
		}
		if rs, ok := n.(*ast.ReturnStmt); ok && len(rs.Results) == 1 {
			if fl, ok := rs.Results[0].(*ast.FuncLit); ok && firstLit == nil {
				t.closureMode = true
				firstLit = fl
			}
		}
		return true
	})
	env := (&Env{}).push()
	var pre []string // lets that explode parameters
	addParam := func(name string, ty Type, at ast.Node) error {
		if name == "_" || name == "" {
			name = "unused"
		}
		cn := t.fresh(name)
		t.params = append(t.params, fmt.Sprintf("(%s : %s)", cn, ty.coq(m)))
		b := &binding{name: cn, ty: ty}
		if ty.K == KList {
			b.lenOf = cn
		}
		if t.explode[name] {
			if ty.K != KStruct {
				return t.errf(at, "unsupported field assignment to %s of type %s", name, ty)
			}
			lets, nb := t.explodeFrom(name, cn, ty)
			pre = append(pre, lets...)
			b = nb
		}
		env.define(name, b)
		return nil
	}
	if fd.Recv != nil {
		r := fd.Recv.List[0]
		rt, ptr, err := t.resolveType(r.Type)
		if err != nil {
			return "", err
		}
		if rt.K != KStruct {
			return "", t.errf(r.Type, "unsupported receiver type")
		}
		rn := "recv"
		if len(r.Names) == 1 {
			rn = r.Names[0].Name
		}
		if err := addParam(rn, rt, r); err != nil {
			return "", err
		}
		t.recvPtr = ptr
		if ptr {
			t.recvName = rn
		}
	}
	for _, f := range fd.Type.Params.List {
		pt, ptr, err := t.resolveType(f.Type)
		if err != nil {
			return "", err
		}
		if ptr {
			return "", t.errf(f.Type, "unsupported pointer parameter")
		}
		for _, n := range f.Names {
			if err := addParam(n.Name, pt, f); err != nil {
				return "", err
			}
		}
	}
	// result
	switch {
	case fd.Type.Results == nil || len(fd.Type.Results.List) == 0:
		if !t.recvPtr {
			// a result-less function that stores into one of its slice parameters returns that slice
			_, pname, ok := inPlaceParam(fd)
			if !ok {
				return "", t.errf(fd, "function %s has no result and no pointer receiver (nothing to translate)", key)
			}
			t.recvName = pname
		}
		b := env.lookup(t.recvName)
		t.result = b.ty
	default:
		if t.recvPtr {
			// a pointer-receiver method with results would have to return (receiver, result): only allowed
			// when it never assigns to the receiver
			if t.explode[t.recvName] {
				return "", t.errf(fd, "unsupported: pointer-receiver method %s both mutates its receiver and returns a value", key)
			}
			t.recvName = ""
		}
		var rts []Type
		for _, f := range fd.Type.Results.List {
			rt, ptr, err := t.resolveType(f.Type)
			if err != nil {
				return "", err
			}
			if ptr {
				return "", t.errf(f.Type, "unsupported pointer result")
			}
			if len(f.Names) > 0 {
				// named results are accepted only as documentation: every return must list its values and
				// the body must not mention the result names (no bare return, no assignment to them)
				if err := t.namedResultsUnused(fd, f.Names); err != nil {
					return "", err
				}
				for range f.Names[1:] {
					rts = append(rts, rt)
				}
			}
			rts = append(rts, rt)
		}
		if len(rts) == 1 {
			t.result = rts[0]
		} else {
			t.result = Type{K: KTuple, Elems: rts}
		}
	}
	if !t.closureMode && t.result.K == KFunc && t.recvName == "" {
		t.closureMode = true
	}
	if t.closureMode {
		// the parameters of the returned function follow the constructor's; every returned literal binds
		// its own parameter names to these (the names are those of the first literal)
		if t.result.K != KFunc {
			return "", t.errf(fd, "function literal returned where %s is expected", t.result)
		}
		addc := func(name string, pt Type) {
			cn := t.fresh(name)
			t.cparams = append(t.cparams, cn)
			t.cparamTys = append(t.cparamTys, pt)
			if !t.panicMode {
				t.params = append(t.params, fmt.Sprintf("(%s : %s)", cn, pt.coq(m)))
			}
		}
		if firstLit != nil {
			for _, f := range firstLit.Type.Params.List {
				pt, _, err := t.resolveType(f.Type)
				if err != nil {
					return "", err
				}
				for _, n := range f.Names {
					addc(n.Name, pt)
				}
			}
			if len(t.cparams) != len(t.result.Params) {
				return "", t.errf(firstLit, "unsupported function literal with unnamed parameters")
			}
		} else {
			// no literal at all (every path returns a function VALUE, e.g. `return fold(fields, math.Min)`):
			// eta-expand with parameters named after the result type
			for _, pt := range t.result.Params {
				addc("v", pt)
			}
		}
	}
	body, err := t.stmts(fd.Body.List, env, func(e *Env) (string, error) {
		if t.recvName != "" {
			return t.valueOf(e.lookup(t.recvName)), nil
		}
		return "", t.errf(fd, "control reaches the end of %s without a return", key)
	})
	if err != nil {
		return "", err
	}
	// a returned closure extends the parameter list: the result type is then the closure's result
	resTy := t.result
	if t.closureMode {
		resTy = resTy.Elems[0]
	}
	pos := p.Fset.Position(fd.Pos())
	var b strings.Builder
	if t.panicMode {
		fmt.Fprintf(&b, "(* true exactly when the Go function panics (explicit panic statements only) *)\n")
		fmt.Fprintf(&b, "Definition %s : bool :=\n", strings.Join(append([]string{coqFuncName(key) + "_panics"}, t.params...), " "))
	} else {
		fmt.Fprintf(&b, "(* %s/%s:%d  %s *)\n", p.Dir, baseName(pos.Filename), pos.Line, signature(fd))
		fmt.Fprintf(&b, "Definition %s : %s :=\n", strings.Join(append([]string{coqFuncName(key)}, t.params...), " "), resTy.coq(m))
	}
	for _, l := range pre {
		b.WriteString("  " + l + "\n")
	}
	b.WriteString(indent(body, "  "))
	b.WriteString(".\n")
	return b.String(), nil
}

// namedResultsUnused: the function's named results are never read, assigned or returned implicitly.
func (t *fnTr) namedResultsUnused(fd *ast.FuncDecl, names []*ast.Ident) error {
	var err error
	isRes := map[string]bool{}
	for _, n := range names {
		isRes[n.Name] = true
	}
	ast.Inspect(fd.Body, func(n ast.Node) bool {
		if err != nil {
			return false
		}
		switch n := n.(type) {
		case *ast.FuncLit:
			return false
		case *ast.ReturnStmt:
			if len(n.Results) == 0 {
				err = t.errf(n, "unsupported bare return with named results")
			}
		case *ast.SelectorExpr:
			// x.f: only x can refer to a result variable
			ast.Inspect(n.X, func(m ast.Node) bool {
				if id, ok := m.(*ast.Ident); ok && isRes[id.Name] && err == nil {
					err = t.errf(id, "unsupported use of the named result %s", id.Name)
				}
				return true
			})
			return false
		case *ast.KeyValueExpr:
			// {f: v}: the key is a field name
			ast.Inspect(n.Value, func(m ast.Node) bool {
				if id, ok := m.(*ast.Ident); ok && isRes[id.Name] && err == nil {
					err = t.errf(id, "unsupported use of the named result %s", id.Name)
				}
				return true
			})
			return false
		case *ast.Ident:
			if isRes[n.Name] {
				err = t.errf(n, "unsupported use of the named result %s", n.Name)
			}
		}
		return true
	})
	return err
}

func baseName(p string) string { return p[strings.LastIndex(p, "/")+1:] }

func signature(fd *ast.FuncDecl) string {
	s := "func "
	if fd.Recv != nil && len(fd.Recv.List) == 1 {
		r := fd.Recv.List[0]
		star := ""
		if _, ok := r.Type.(*ast.StarExpr); ok {
			star = "*"
		}
		s += "[" + star + recvTypeName(r.Type) + "] "
	}
	return s + fd.Name.Name
}

func indent(s, pre string) string {
	lines := strings.Split(s, "\n")
	for i, l := range lines {
		if l != "" {
			lines[i] = pre + l
		}
	}
	return strings.Join(lines, "\n")
}

func (t *fnTr) fresh(base string) string {
	if base == "_" {
		base = "unused"
	}
	n := base
	for i := 1; t.used[n]; i++ {
		n = fmt.Sprintf("%s_%d", base, i)
	}
	t.used[n] = true
	return n
}

// explodeFrom binds every field of struct value `src` (a Coq variable) to a fresh name.
func (t *fnTr) explodeFrom(goName, src string, ty Type) ([]string, *binding) {
	b := &binding{ty: ty, exploded: true, fields: map[string]string{}}
	var lets []string
	for _, f := range ty.S.Fields {
		fn := t.fresh(goName + "_" + f.Name)
		lets = append(lets, fmt.Sprintf("let %s := %s %s in", fn, t.projName(ty.S, f.Name), src))
		b.fields[f.Name] = fn
	}
	return lets, b
}

func (t *fnTr) projName(s *Struct, f string) string {
	if s.Mod == t.mod {
		return s.proj(f)
	}
	t.noteImport(s.Mod)
	return s.Mod.Name + "." + s.proj(f)
}
func (t *fnTr) ctorName(s *Struct) string {
	if s.Mod == t.mod {
		return s.ctor()
	}
	t.noteImport(s.Mod)
	return s.Mod.Name + "." + s.ctor()
}

func (t *fnTr) valueOf(b *binding) string {
	if !b.exploded {
		return b.name
	}
	parts := []string{t.ctorName(b.ty.S)}
	for _, f := range b.ty.S.Fields {
		parts = append(parts, b.fields[f.Name])
	}
	return "(" + strings.Join(parts, " ") + ")"
}

// zero value of a type
func (t *fnTr) zero(ty Type, at ast.Node) (string, error) {
	switch ty.K {
	case KFloat:
		return "(cofZ 0)", nil
	case KBool:
		return "false", nil
	case KVec2:
		return "v2_zero", nil
	case KVec3:
		return "v3_zero", nil
	case KVec4:
		return "v4_zero", nil
	case KFunc: // Go: nil (calling it panics); total model: the constant zero function
		z, err := t.zero(ty.Elems[0], at)
		if err != nil {
			return "", err
		}
		return "(fun" + strings.Repeat(" _", len(ty.Params)) + " => " + z + ")", nil
	case KStruct:
		parts := []string{t.ctorName(ty.S)}
		for _, f := range ty.S.Fields {
			z, err := t.zero(f.T, at)
			if err != nil {
				return "", err
			}
			parts = append(parts, z)
		}
		return "(" + strings.Join(parts, " ") + ")", nil
	}
	return "", t.errf(at, "unsupported zero value of type %s", ty)
}

// ---------------------------------------------------------------- statements (continuation passing)

type cont func(*Env) (string, error)

func terminates(list []ast.Stmt) bool {
	if len(list) == 0 {
		return false
	}
	switch s := list[len(list)-1].(type) {
	case *ast.ReturnStmt:
		return true
	case *ast.BlockStmt:
		return terminates(s.List)
	case *ast.IfStmt:
		if s.Else == nil || !terminates(s.Body.List) {
			return false
		}
		switch e := s.Else.(type) {
		case *ast.BlockStmt:
			return terminates(e.List)
		case *ast.IfStmt:
			return terminates([]ast.Stmt{e})
		}
	}
	return false
}

func (t *fnTr) stmts(list []ast.Stmt, env *Env, k cont) (string, error) {
	if len(list) == 0 {
		return k(env)
	}
	if lets, matched, err := t.prevMap(list, env); matched {
		// ys := make([]T, len(xs)-K); prev := xs[K-1]; for i, x := range xs[K:] { ys[i] = E; prev = x }   (prevloop.go)
		if err != nil {
			return "", err
		}
		r, err := t.stmts(list[3:], env, k)
		if err != nil {
			return "", err
		}
		return joinLets(lets, r), nil
	}
	s, rest := list[0], list[1:]
	next := func(e *Env) (string, error) { return t.stmts(rest, e, k) }
	switch s := s.(type) {
	case *ast.EmptyStmt:
		return next(env)
	case *ast.BlockStmt:
		return t.stmts(s.List, env.push(), func(e *Env) (string, error) { return next(e.pop()) })
	case *ast.ReturnStmt:
		return t.ret(s, env)
	case *ast.AssignStmt:
		lets, err := t.assign(s, env)
		if err != nil {
			return "", err
		}
		conds := t.takePanics()
		r, err := next(env)
		if err != nil {
			return "", err
		}
		return t.guardPanics(conds, joinLets(lets, r)), nil
	case *ast.DeclStmt:
		lets, err := t.decl(s, env)
		if err != nil {
			return "", err
		}
		conds := t.takePanics()
		r, err := next(env)
		if err != nil {
			return "", err
		}
		return t.guardPanics(conds, joinLets(lets, r)), nil
	case *ast.ExprStmt:
		lets, err := t.exprStmt(s, env)
		if err != nil {
			return "", err
		}
		conds := t.takePanics()
		r, err := next(env)
		if err != nil {
			return "", err
		}
		return t.guardPanics(conds, joinLets(lets, r)), nil
	case *ast.IfStmt:
		return t.ifStmt(s, env, next)
	case *ast.ForStmt:
		var lets []string
		var err error
		if as, ix, ok := isIndexStoreBody(s.Body); ok {
			lets, err = t.forMap(s, as, ix, env)
		} else if as, ok := isAppendBody(s.Body); ok {
			lets, err = t.forAppend(s, as, env)
		} else {
			lets, err = t.forFold(s, env)
		}
		if err != nil {
			return "", err
		}
		conds := t.takePanics()
		r, err := next(env)
		if err != nil {
			return "", err
		}
		return t.guardPanics(conds, joinLets(lets, r)), nil
	case *ast.RangeStmt:
		var lets []string
		var err error
		if as, ix, ok := isIndexStoreBody(s.Body); ok {
			lets, err = t.rangeMap(s, as, ix, env)
		} else {
			lets, err = t.rangeFold(s, env)
		}
		if err != nil {
			return "", err
		}
		conds := t.takePanics()
		r, err := next(env)
		if err != nil {
			return "", err
		}
		return t.guardPanics(conds, joinLets(lets, r)), nil
	case *ast.SwitchStmt:
		ifs, err := t.switchAsIf(s)
		if err != nil {
			return "", err
		}
		if ifs == nil {
			return next(env)
		}
		return t.stmts(append([]ast.Stmt{ifs}, rest...), env, k)
	case *ast.TypeSwitchStmt:
		return "", t.errf(s, "unsupported statement: type switch")
	case *ast.IncDecStmt:
		return "", t.errf(s, "unsupported statement: ++/--")
	case *ast.GoStmt, *ast.DeferStmt, *ast.SelectStmt, *ast.SendStmt:
		return "", t.errf(s, "unsupported statement: concurrency/defer")
	}
	return "", t.errf(s, "unsupported statement %T", s)
}

// switchAsIf rewrites `switch [init;] [tag] { case v1, v2: B1 ... default: Bd }` (no fallthrough/break) into the
// equivalent if / else-if chain, tested in source order; nil for an empty switch.  With a tag the conditions
// are tag == v (the tag is a pure expression of the subset, so evaluating it per case is the same value); an
// init statement scopes over the whole chain.
func (t *fnTr) switchAsIf(s *ast.SwitchStmt) (ast.Stmt, error) {
	if s.Init != nil {
		inner := *s
		inner.Init = nil
		chain, err := t.switchAsIf(&inner)
		if err != nil {
			return nil, err
		}
		list := []ast.Stmt{s.Init}
		if chain != nil {
			list = append(list, chain)
		}
		return &ast.BlockStmt{Lbrace: s.Pos(), List: list, Rbrace: s.End()}, nil
	}
	var cases []*ast.CaseClause
	var def *ast.CaseClause
	for _, c := range s.Body.List {
		cc := c.(*ast.CaseClause)
		bad := false
		for _, b := range cc.Body {
			ast.Inspect(b, func(n ast.Node) bool {
				switch n := n.(type) {
				case *ast.FuncLit, *ast.ForStmt, *ast.RangeStmt:
					return false
				case *ast.BranchStmt:
					_ = n
					bad = true
				}
				return true
			})
		}
		if bad {
			return nil, t.errf(cc, "unsupported statement: break/fallthrough/goto inside a switch")
		}
		if cc.List == nil {
			def = cc
			continue
		}
		cases = append(cases, cc)
	}
	var tail ast.Stmt
	if def != nil {
		tail = &ast.BlockStmt{Lbrace: def.Pos(), List: def.Body, Rbrace: def.End()}
	}
	for i := len(cases) - 1; i >= 0; i-- {
		cc := cases[i]
		var cond ast.Expr
		for _, v := range cc.List {
			c := v
			if s.Tag != nil {
				c = &ast.BinaryExpr{X: s.Tag, OpPos: v.Pos(), Op: token.EQL, Y: v}
			}
			if cond == nil {
				cond = c
			} else {
				cond = &ast.BinaryExpr{X: cond, OpPos: v.Pos(), Op: token.LOR, Y: c}
			}
		}
		tail = &ast.IfStmt{If: cc.Pos(), Cond: cond,
			Body: &ast.BlockStmt{Lbrace: cc.Pos(), List: cc.Body, Rbrace: cc.End()}, Else: tail}
	}
	return tail, nil
}

func joinLets(lets []string, body string) string {
	if len(lets) == 0 {
		return body
	}
	return strings.Join(lets, "\n") + "\n" + body
}

func (t *fnTr) ret(s *ast.ReturnStmt, env *Env) (string, error) {
	if t.panicMode {
		// the return itself does not panic; a callee in its operands may
		if !t.inClosure {
			for _, r := range s.Results {
				if _, isLit := r.(*ast.FuncLit); isLit {
					continue
				}
				if _, err := t.expr(r, env); err != nil {
					return "", err
				}
			}
		}
		return t.guardPanics(t.takePanics(), "false"), nil
	}
	switch len(s.Results) {
	case 0:
		if t.recvName == "" {
			return "", t.errf(s, "unsupported bare return")
		}
		return t.valueOf(env.lookup(t.recvName)), nil
	case 1:
		if fl, ok := s.Results[0].(*ast.FuncLit); ok {
			return t.closure(fl, env)
		}
		if t.closureMode && !t.inClosure {
			// `return g` for a function value g: the generated function applies it to the closure parameters
			v, err := t.expr(s.Results[0], env)
			if err != nil {
				return "", err
			}
			if !v.ty.eq(t.result) {
				return "", t.errf(s, "return of type %s where %s is expected", v.ty, t.result)
			}
			return "(" + strings.Join(append([]string{v.code}, t.cparams...), " ") + ")", nil
		}
		v, err := t.expr(s.Results[0], env)
		if err != nil {
			return "", err
		}
		want := t.curResult()
		if !v.ty.eq(want) {
			return "", t.errf(s, "return of type %s where %s is expected", v.ty, want)
		}
		return v.code, nil
	}
	want := t.curResult()
	if want.K != KTuple || len(want.Elems) != len(s.Results) {
		return "", t.errf(s, "unsupported return arity")
	}
	var parts []string
	for i, r := range s.Results {
		v, err := t.expr(r, env)
		if err != nil {
			return "", err
		}
		if !v.ty.eq(want.Elems[i]) {
			return "", t.errf(r, "return component of type %s where %s is expected", v.ty, want.Elems[i])
		}
		parts = append(parts, v.code)
	}
	return "(" + strings.Join(parts, ", ") + ")", nil
}

// closure: `return func(params) T { body }` — the generated function takes the closure's parameters
// after the constructor's (captured variables stay in scope).
func (t *fnTr) closure(fl *ast.FuncLit, env *Env) (string, error) {
	want := t.curResult()
	if want.K != KFunc {
		return "", t.errf(fl, "function literal returned where %s is expected", want)
	}
	if t.inClosure {
		return "", t.errf(fl, "unsupported: function literal returned by a function literal")
	}
	ft, _, err := t.resolveType(fl.Type)
	if err != nil {
		return "", err
	}
	if !ft.eq(want) {
		return "", t.errf(fl, "function literal type does not match the declared result type")
	}
	e := env.push()
	i := 0
	for _, f := range fl.Type.Params.List {
		if len(f.Names) == 0 {
			return "", t.errf(fl, "unsupported function literal with unnamed parameters")
		}
		for _, n := range f.Names {
			e.define(n.Name, &binding{name: t.cparams[i], ty: t.cparamTys[i]})
			i++
		}
	}
	t.inClosure = true
	defer func() { t.inClosure = false }()
	return t.stmts(fl.Body.List, e, func(*Env) (string, error) {
		return "", t.errf(fl, "control reaches the end of the function literal without a return")
	})
}

func (t *fnTr) curResult() Type {
	if t.inClosure {
		return t.result.Elems[0]
	}
	return t.result
}

// bind introduces a new Coq name for Go variable `name` holding v; returns the let lines.
func (t *fnTr) bind(name string, v val, env *Env, define bool, at ast.Node) ([]string, error) {
	if name == "_" {
		return nil, nil
	}
	if v.ty.K == KVoid || v.ty.K == KTuple {
		return nil, t.errf(at, "unsupported assignment of a %s value", v.ty)
	}
	cn := t.fresh(name)
	lets := []string{fmt.Sprintf("let %s := %s in", cn, v.code)}
	b := &binding{name: cn, ty: v.ty}
	if t.explode[name] {
		if v.ty.K != KStruct {
			return nil, t.errf(at, "unsupported field assignment to %s of type %s", name, v.ty)
		}
		l2, nb := t.explodeFrom(name, cn, v.ty)
		lets = append(lets, l2...)
		b = nb
	}
	if define {
		env.define(name, b)
	} else {
		if old := env.lookup(name); old != nil && !old.ty.eq(v.ty) {
			return nil, t.errf(at, "assignment changes the type of %s (%s to %s)", name, old.ty, v.ty)
		}
		env.assign(name, b)
	}
	return lets, nil
}

func (t *fnTr) assign(s *ast.AssignStmt, env *Env) ([]string, error) {
	var lets []string
	if len(s.Lhs) == 1 && len(s.Rhs) == 1 && (s.Tok == token.DEFINE || s.Tok == token.ASSIGN) {
		if mc, ok := isMakeCall(s.Rhs[0], env); ok {
			id, ok := s.Lhs[0].(*ast.Ident)
			if !ok || id.Name == "_" {
				return nil, t.errf(s, "unsupported assignment target for make")
			}
			v, root, err := t.makeList(mc, env)
			empty := false
			if ev, isEmpty, eerr := t.makeEmpty(mc, env); isEmpty {
				v, root, err, empty = ev, "", eerr, true
			}
			if err != nil {
				return nil, err
			}
			if s.Tok == token.ASSIGN && env.lookup(id.Name) == nil {
				return nil, t.errf(id, "assignment to %s which is not a local variable", id.Name)
			}
			ls, err := t.bind(id.Name, v, env, s.Tok == token.DEFINE && !env.inTop(id.Name), id)
			if err != nil {
				return nil, err
			}
			env.lookup(id.Name).lenOf = root
			env.lookup(id.Name).emptyLst = empty
			return ls, nil
		}
	}
	if s.Tok != token.DEFINE && s.Tok != token.ASSIGN {
		// x op= e
		if len(s.Lhs) != 1 || len(s.Rhs) != 1 {
			return nil, t.errf(s, "unsupported assignment")
		}
		var op token.Token
		switch s.Tok {
		case token.ADD_ASSIGN:
			op = token.ADD
		case token.SUB_ASSIGN:
			op = token.SUB
		case token.MUL_ASSIGN:
			op = token.MUL
		case token.QUO_ASSIGN:
			op = token.QUO
		default:
			return nil, t.errf(s, "unsupported assignment operator %s", s.Tok)
		}
		be := &ast.BinaryExpr{X: s.Lhs[0], Op: op, Y: s.Rhs[0], OpPos: s.TokPos}
		s = &ast.AssignStmt{Lhs: s.Lhs, Tok: token.ASSIGN, TokPos: s.TokPos, Rhs: []ast.Expr{be}}
	}
	if len(s.Rhs) == 1 && len(s.Lhs) > 1 {
		// a, b, c := f()  with f translated to a tuple-valued definition
		v, err := t.expr(s.Rhs[0], env)
		if err != nil {
			return nil, err
		}
		if v.ty.K != KTuple || len(v.ty.Elems) != len(s.Lhs) {
			return nil, t.errf(s, "unsupported assignment: %d variables from one expression of type %s", len(s.Lhs), v.ty)
		}
		tmps := make([]string, len(s.Lhs))
		for i := range tmps {
			tmps[i] = t.fresh("tmp")
		}
		lets = append(lets, fmt.Sprintf("let '(%s) := %s in", strings.Join(tmps, ", "), v.code))
		for i, l := range s.Lhs {
			id, ok := l.(*ast.Ident)
			if !ok {
				return nil, t.errf(l, "unsupported assignment target in a multi-value assignment")
			}
			define := s.Tok == token.DEFINE && !env.inTop(id.Name)
			if s.Tok == token.ASSIGN && id.Name != "_" && env.lookup(id.Name) == nil {
				return nil, t.errf(id, "assignment to %s which is not a local variable", id.Name)
			}
			ls, err := t.bind(id.Name, val{tmps[i], v.ty.Elems[i]}, env, define, id)
			if err != nil {
				return nil, err
			}
			lets = append(lets, ls...)
		}
		return lets, nil
	}
	if len(s.Lhs) != len(s.Rhs) {
		return nil, t.errf(s, "unsupported assignment: %d variables from %d expressions (multi-value call)", len(s.Lhs), len(s.Rhs))
	}
	// evaluate all right-hand sides first (Go semantics for parallel assignment)
	vals := make([]val, len(s.Rhs))
	for i, r := range s.Rhs {
		v, err := t.expr(r, env)
		if err != nil {
			return nil, err
		}
		vals[i] = v
	}
	if len(vals) > 1 {
		// bind to temporaries so that later lets do not capture earlier ones
		for i := range vals {
			tmp := t.fresh("tmp")
			lets = append(lets, fmt.Sprintf("let %s := %s in", tmp, vals[i].code))
			vals[i].code = tmp
		}
	}
	for i, l := range s.Lhs {
		switch l := l.(type) {
		case *ast.Ident:
			define := s.Tok == token.DEFINE && !env.inTop(l.Name)
			if s.Tok == token.ASSIGN && l.Name != "_" && env.lookup(l.Name) == nil {
				return nil, t.errf(l, "assignment to %s which is not a local variable", l.Name)
			}
			ls, err := t.bind(l.Name, vals[i], env, define, l)
			if err != nil {
				return nil, err
			}
			lets = append(lets, ls...)
		case *ast.SelectorExpr:
			id, ok := l.X.(*ast.Ident)
			if !ok {
				return nil, t.errf(l, "unsupported assignment target (nested selector)")
			}
			b := env.lookup(id.Name)
			if b == nil || !b.exploded {
				return nil, t.errf(l, "unsupported assignment target %s.%s", id.Name, l.Sel.Name)
			}
			var ft *Type
			for _, f := range b.ty.S.Fields {
				if f.Name == l.Sel.Name {
					f := f
					ft = &f.T
				}
			}
			if ft == nil {
				return nil, t.errf(l, "struct %s has no field %s", b.ty.S.Name, l.Sel.Name)
			}
			if !ft.eq(vals[i].ty) {
				return nil, t.errf(l, "field %s.%s of type %s assigned a %s", id.Name, l.Sel.Name, *ft, vals[i].ty)
			}
			fn := t.fresh(id.Name + "_" + l.Sel.Name)
			lets = append(lets, fmt.Sprintf("let %s := %s in", fn, vals[i].code))
			nb := *b
			nb.fields = map[string]string{}
			for k, v := range b.fields {
				nb.fields[k] = v
			}
			nb.fields[l.Sel.Name] = fn
			env.assign(id.Name, &nb)
		default:
			return nil, t.errf(l, "unsupported assignment target %T", l)
		}
	}
	return lets, nil
}

func (t *fnTr) decl(s *ast.DeclStmt, env *Env) ([]string, error) {
	gd, ok := s.Decl.(*ast.GenDecl)
	if !ok || (gd.Tok != token.VAR && gd.Tok != token.CONST) {
		return nil, t.errf(s, "unsupported declaration")
	}
	var lets []string
	for _, sp := range gd.Specs {
		vs := sp.(*ast.ValueSpec)
		for i, n := range vs.Names {
			var v val
			switch {
			case len(vs.Values) == len(vs.Names):
				var err error
				v, err = t.expr(vs.Values[i], env)
				if err != nil {
					return nil, err
				}
				if vs.Type != nil {
					dt, _, err := t.resolveType(vs.Type)
					if err != nil {
						return nil, err
					}
					if !dt.eq(v.ty) {
						return nil, t.errf(vs, "declared type %s but value of type %s", dt, v.ty)
					}
				}
			case len(vs.Values) == 0 && vs.Type != nil:
				dt, ptr, err := t.resolveType(vs.Type)
				if err != nil {
					return nil, err
				}
				if ptr {
					return nil, t.errf(vs, "unsupported pointer variable")
				}
				if dt.K == KList {
					// var ys []T: the nil slice is the empty list (only useful as the target of an append loop)
					v = val{fmt.Sprintf("(@nil %s)", paren(dt.Elems[0].coq(t.mod))), dt}
					ls, err := t.bind(n.Name, v, env, true, n)
					if err != nil {
						return nil, err
					}
					env.lookup(n.Name).emptyLst = true
					lets = append(lets, ls...)
					continue
				}
				z, err := t.zero(dt, vs)
				if err != nil {
					return nil, err
				}
				v = val{z, dt}
			default:
				return nil, t.errf(vs, "unsupported declaration form")
			}
			ls, err := t.bind(n.Name, v, env, true, n)
			if err != nil {
				return nil, err
			}
			lets = append(lets, ls...)
		}
	}
	return lets, nil
}

// exprStmt: only `x.M(args)` where M is a result-less pointer-receiver method (it updates x).
func (t *fnTr) exprStmt(s *ast.ExprStmt, env *Env) ([]string, error) {
	if lets, handled, err := t.sliceCallStmt(s, env); handled {
		return lets, err
	}
	call, ok := s.X.(*ast.CallExpr)
	if !ok {
		return nil, t.errf(s, "unsupported expression statement")
	}
	if id, ok := call.Fun.(*ast.Ident); ok && id.Name == "panic" {
		return nil, t.errf(s, "unsupported statement: panic")
	}
	se, ok := call.Fun.(*ast.SelectorExpr)
	if !ok {
		return nil, t.errf(s, "unsupported call statement (result discarded)")
	}
	id, ok := se.X.(*ast.Ident)
	if !ok {
		return nil, t.errf(s, "unsupported call statement: receiver must be a local variable")
	}
	b := env.lookup(id.Name)
	if b == nil || b.ty.K != KStruct {
		return nil, t.errf(s, "unsupported call statement %s.%s (result discarded)", id.Name, se.Sel.Name)
	}
	ref, fd, err := t.methodRef(b.ty.S, se.Sel.Name, call)
	if err != nil {
		return nil, err
	}
	isPtr := false
	if _, ok := fd.Recv.List[0].Type.(*ast.StarExpr); ok {
		isPtr = true
	}
	if !isPtr || (fd.Type.Results != nil && len(fd.Type.Results.List) > 0) {
		return nil, t.errf(s, "unsupported call statement: %s is not a result-less pointer-receiver method", se.Sel.Name)
	}
	args, err := t.args(call, fd, env)
	if err != nil {
		return nil, err
	}
	code := "(" + strings.Join(append([]string{ref, t.valueOf(b)}, args...), " ") + ")"
	return t.bind(id.Name, val{code, b.ty}, env, false, s)
}

func (t *fnTr) ifStmt(s *ast.IfStmt, env *Env, next cont) (string, error) {
	var initLets []string
	if s.Init != nil {
		env = env.push()
		var err error
		switch in := s.Init.(type) {
		case *ast.AssignStmt:
			initLets, err = t.assign(in, env)
		default:
			err = t.errf(s.Init, "unsupported if-initialiser")
		}
		if err != nil {
			return "", err
		}
		inner := next
		next = func(e *Env) (string, error) { return inner(e.pop()) }
	}
	initConds := t.takePanics()
	c, err := t.expr(s.Cond, env)
	if err != nil {
		return "", err
	}
	if c.ty.K != KBool {
		return "", t.errf(s.Cond, "condition is not boolean")
	}
	condConds := t.takePanics()
	finish := func(lets []string, code string) string {
		return t.guardPanics(initConds, joinLets(lets, t.guardPanics(condConds, code)))
	}
	// `if c { panic(..) }`: Go stops here; the total Gallina function yields the zero value of its result
	// type and <name>_panics (second pass) yields true
	if len(s.Body.List) == 1 && isPanicStmt(s.Body.List[0]) {
		if t.inClosure {
			return "", t.errf(s, "unsupported statement: panic inside a returned function literal")
		}
		t.hasPanic = true
		var thenCode string
		if t.panicMode {
			thenCode = "true"
		} else {
			rt := t.result
			if t.closureMode {
				rt = rt.Elems[0]
			}
			thenCode, err = t.zero(rt, s)
			if err != nil {
				return "", err
			}
		}
		var elseCode string
		afterElse := func(e *Env) (string, error) { return next(e.pop()) }
		switch e := s.Else.(type) {
		case nil:
			elseCode, err = next(env)
		case *ast.BlockStmt:
			elseCode, err = t.stmts(e.List, env.clone().push(), afterElse)
		case *ast.IfStmt:
			elseCode, err = t.stmts([]ast.Stmt{e}, env.clone().push(), afterElse)
		default:
			err = t.errf(s, "unsupported else form")
		}
		if err != nil {
			return "", err
		}
		code := fmt.Sprintf("if %s\nthen (* panic *) %s\nelse (\n%s)", c.code, thenCode, indent(elseCode, "  "))
		return finish(initLets, code), nil
	}
	// conditional single assignment to an outer scalar/vector variable, no else: a phi
	if s.Else == nil && len(s.Body.List) == 1 {
		if as, ok := s.Body.List[0].(*ast.AssignStmt); ok && as.Tok == token.ASSIGN && len(as.Lhs) == 1 && len(as.Rhs) == 1 {
			if id, ok := as.Lhs[0].(*ast.Ident); ok {
				if b := env.lookup(id.Name); b != nil && !b.exploded {
					v, err := t.expr(as.Rhs[0], env)
					if err != nil {
						return "", err
					}
					if err := t.noCalleePanicsSince(0, as, "a conditional assignment"); err != nil {
						return "", err
					}
					if !v.ty.eq(b.ty) {
						return "", t.errf(as, "assignment changes the type of %s", id.Name)
					}
					phi := val{fmt.Sprintf("(if %s then %s else %s)", c.code, v.code, b.name), b.ty}
					lets, err := t.bind(id.Name, phi, env, false, as)
					if err != nil {
						return "", err
					}
					r, err := next(env)
					if err != nil {
						return "", err
					}
					return finish(append(initLets, lets...), r), nil
				}
			}
		}
	}
	after := func(e *Env) (string, error) { return next(e.pop()) }
	thenCode, err := t.stmts(s.Body.List, env.clone().push(), after)
	if err != nil {
		return "", err
	}
	var elseCode string
	switch e := s.Else.(type) {
	case nil:
		elseCode, err = next(env.clone())
	case *ast.BlockStmt:
		elseCode, err = t.stmts(e.List, env.clone().push(), after)
	case *ast.IfStmt:
		elseCode, err = t.stmts([]ast.Stmt{e}, env.clone().push(), after)
	default:
		err = t.errf(s, "unsupported else form")
	}
	if err != nil {
		return "", err
	}
	code := fmt.Sprintf("if %s\nthen (\n%s)\nelse (\n%s)", c.code, indent(thenCode, "  "), indent(elseCode, "  "))
	return finish(initLets, code), nil
}

func isPanicStmt(s ast.Stmt) bool {
	es, ok := s.(*ast.ExprStmt)
	if !ok {
		return false
	}
	call, ok := es.X.(*ast.CallExpr)
	if !ok {
		return false
	}
	id, ok := call.Fun.(*ast.Ident)
	return ok && id.Name == "panic"
}

// forFold: the one loop shape inside the subset,
//
//	for i := K; i < len(xs); i++ { acc = E }      (E mentions i only as xs[i]; xs a read-only list)
//
// becomes  let acc' := fold_left (fun acc x_i => E) (skipn K xs) acc in ...
func (t *fnTr) forFold(s *ast.ForStmt, env *Env) ([]string, error) {
	bad := func(n ast.Node, what string) ([]string, error) {
		return nil, t.errf(n, "unsupported statement: for loop (%s; only `for i := K; i < len(xs); i++ { acc = E }`)", what)
	}
	init, ok := s.Init.(*ast.AssignStmt)
	if !ok || init.Tok != token.DEFINE || len(init.Lhs) != 1 || len(init.Rhs) != 1 {
		return bad(s, "initialiser")
	}
	iv, ok := init.Lhs[0].(*ast.Ident)
	if !ok {
		return bad(s, "initialiser")
	}
	start, ok := intLit(init.Rhs[0])
	if !ok || strings.HasPrefix(start, "-") {
		return bad(s, "start index is not a non-negative integer literal")
	}
	cond, ok := s.Cond.(*ast.BinaryExpr)
	if !ok || cond.Op != token.LSS {
		return bad(s, "condition")
	}
	if ci, ok := cond.X.(*ast.Ident); !ok || ci.Name != iv.Name {
		return bad(s, "condition")
	}
	lc, ok := cond.Y.(*ast.CallExpr)
	if !ok || len(lc.Args) != 1 {
		return bad(s, "bound is not len(xs)")
	}
	if lf, ok := lc.Fun.(*ast.Ident); !ok || lf.Name != "len" || env.lookup("len") != nil {
		return bad(s, "bound is not len(xs)")
	}
	xs, ok := lc.Args[0].(*ast.Ident)
	if !ok {
		return bad(s, "bound is not len(xs)")
	}
	xb := env.lookup(xs.Name)
	if xb == nil || xb.ty.K != KList {
		return bad(s, "bound is not the length of a list parameter")
	}
	post, ok := s.Post.(*ast.IncDecStmt)
	if !ok || post.Tok != token.INC {
		return bad(s, "post statement")
	}
	if pi, ok := post.X.(*ast.Ident); !ok || pi.Name != iv.Name {
		return bad(s, "post statement")
	}
	if len(s.Body.List) != 1 {
		return bad(s, "body is not a single assignment")
	}
	as, ok := s.Body.List[0].(*ast.AssignStmt)
	if !ok || as.Tok != token.ASSIGN || len(as.Lhs) != 1 || len(as.Rhs) != 1 {
		return bad(s, "body is not a single assignment")
	}
	acc, ok := as.Lhs[0].(*ast.Ident)
	if !ok || acc.Name == iv.Name || acc.Name == xs.Name {
		return bad(s, "body is not an assignment to an accumulator variable")
	}
	ab := env.lookup(acc.Name)
	if ab == nil || ab.exploded || ab.loopOf != "" {
		return bad(s, "accumulator is not a plain local variable")
	}
	switch ab.ty.K {
	case KFloat, KVec2, KVec3, KVec4, KBool:
	default:
		return bad(s, "accumulator type "+ab.ty.String())
	}
	inner := env.clone().push()
	accName := t.fresh(acc.Name + "_acc")
	elemName := t.fresh(xs.Name + "_i")
	inner.define(iv.Name, &binding{name: "?", ty: tInt, loopOf: xs.Name, elem: elemName, elemTy: xb.ty.Elems[0]})
	inner.assign(acc.Name, &binding{name: accName, ty: ab.ty})
	v, err := t.expr(as.Rhs[0], inner)
	if err != nil {
		return nil, err
	}
	if err := t.noCalleePanicsSince(0, as, "a loop body"); err != nil {
		return nil, err
	}
	if !v.ty.eq(ab.ty) {
		return nil, t.errf(as, "assignment changes the type of %s", acc.Name)
	}
	list := xb.name
	if start != "0" {
		list = fmt.Sprintf("(skipn %s %s)", start, xb.name)
	}
	fold := val{fmt.Sprintf("(fold_left (fun %s %s => %s) %s %s)", accName, elemName, v.code, list, ab.name), ab.ty}
	return t.bind(acc.Name, fold, env, false, as)
}

// rangeFold: the range form of the same loop shape,
//
//	for _, x := range xs      { acc = E }
//	for _, x := range xs[K:]  { acc = E }     (xs a read-only list, K a non-negative literal)
//
// becomes  let acc' := fold_left (fun acc x => E) (skipn K xs) acc in ...
func (t *fnTr) rangeFold(s *ast.RangeStmt, env *Env) ([]string, error) {
	bad := func(n ast.Node, what string) ([]string, error) {
		return nil, t.errf(n, "unsupported statement: range loop (%s; only `for _, x := range xs[K:] { acc = E }`)", what)
	}
	if s.Tok != token.DEFINE {
		return bad(s, "loop variables must be declared with :=")
	}
	if k, ok := s.Key.(*ast.Ident); s.Key != nil && (!ok || k.Name != "_") {
		return bad(s, "the index variable must be _")
	}
	xv, ok := s.Value.(*ast.Ident)
	if !ok || xv.Name == "_" {
		return bad(s, "no element variable")
	}
	start := "0"
	src := s.X
	if se, ok := src.(*ast.SliceExpr); ok {
		if se.High != nil || se.Max != nil || se.Slice3 {
			return bad(s, "only xs[K:] slices")
		}
		if se.Low != nil {
			l, ok := intLit(se.Low)
			if !ok || strings.HasPrefix(l, "-") {
				return bad(s, "start index is not a non-negative integer literal")
			}
			start = l
		}
		src = se.X
	}
	xs, ok := src.(*ast.Ident)
	if !ok {
		return bad(s, "the range expression is not a list variable")
	}
	xb := env.lookup(xs.Name)
	if xb == nil || xb.ty.K != KList {
		return bad(s, "the range expression is not a list variable")
	}
	if len(s.Body.List) != 1 {
		return bad(s, "body is not a single assignment")
	}
	as, ok := s.Body.List[0].(*ast.AssignStmt)
	if !ok || as.Tok != token.ASSIGN || len(as.Lhs) != 1 || len(as.Rhs) != 1 {
		return bad(s, "body is not a single assignment")
	}
	acc, ok := as.Lhs[0].(*ast.Ident)
	if !ok || acc.Name == xv.Name || acc.Name == xs.Name {
		return bad(s, "body is not an assignment to an accumulator variable")
	}
	ab := env.lookup(acc.Name)
	if ab == nil || ab.exploded || ab.loopOf != "" {
		return bad(s, "accumulator is not a plain local variable")
	}
	switch ab.ty.K {
	case KFloat, KVec2, KVec3, KVec4, KBool:
	default:
		return bad(s, "accumulator type "+ab.ty.String())
	}
	inner := env.clone().push()
	accName := t.fresh(acc.Name + "_acc")
	elemName := t.fresh(xv.Name)
	inner.define(xv.Name, &binding{name: elemName, ty: xb.ty.Elems[0]})
	inner.assign(acc.Name, &binding{name: accName, ty: ab.ty})
	v, err := t.expr(as.Rhs[0], inner)
	if err != nil {
		return nil, err
	}
	if err := t.noCalleePanicsSince(0, as, "a loop body"); err != nil {
		return nil, err
	}
	if !v.ty.eq(ab.ty) {
		return nil, t.errf(as, "assignment changes the type of %s", acc.Name)
	}
	list := xb.name
	if start != "0" {
		list = fmt.Sprintf("(skipn %s %s)", start, xb.name)
	}
	fold := val{fmt.Sprintf("(fold_left (fun %s %s => %s) %s %s)", accName, elemName, v.code, list, ab.name), ab.ty}
	return t.bind(acc.Name, fold, env, false, as)
}

// intLit: a (parenthesised) decimal integer literal
func intLit(e ast.Expr) (string, bool) {
	for {
		pe, ok := e.(*ast.ParenExpr)
		if !ok {
			break
		}
		e = pe.X
	}
	bl, ok := e.(*ast.BasicLit)
	if !ok || bl.Kind != token.INT {
		return "", false
	}
	z, ok := new(big.Int).SetString(strings.ReplaceAll(bl.Value, "_", ""), 0)
	if !ok {
		return "", false
	}
	return z.String(), true
}

// ---------------------------------------------------------------- expressions

func litCode(lit string, at ast.Node, t *fnTr) (val, error) {
	r, ok := new(big.Rat).SetString(strings.ReplaceAll(lit, "_", ""))
	if !ok {
		// hex/octal integers
		z, ok2 := new(big.Int).SetString(strings.ReplaceAll(lit, "_", ""), 0)
		if !ok2 {
			return val{}, t.errf(at, "unsupported numeric literal %s", lit)
		}
		r = new(big.Rat).SetInt(z)
	}
	if r.IsInt() {
		if r.Sign() < 0 {
			return val{fmt.Sprintf("(cofZ (%s))", r.Num().String()), tFloat}, nil
		}
		return val{fmt.Sprintf("(cofZ %s)", r.Num().String()), tFloat}, nil
	}
	n := r.Num().String()
	if r.Sign() < 0 {
		n = "(" + n + ")"
	}
	return val{fmt.Sprintf("(cofQ %s %s)", n, r.Denom().String()), tFloat}, nil
}

func (t *fnTr) expr(e ast.Expr, env *Env) (val, error) {
	switch e := e.(type) {
	case *ast.ParenExpr:
		return t.expr(e.X, env)
	case *ast.BasicLit:
		if e.Kind == token.INT || e.Kind == token.FLOAT {
			return litCode(e.Value, e, t)
		}
		return val{}, t.errf(e, "unsupported literal %s", e.Value)
	case *ast.Ident:
		switch e.Name {
		case "true":
			return val{"true", tBool}, nil
		case "false":
			return val{"false", tBool}, nil
		}
		if b := env.lookup(e.Name); b != nil {
			if b.loopOf != "" {
				return val{}, t.errf(e, "unsupported use of loop index %s (only as %s[%s])", e.Name, b.loopOf, e.Name)
			}
			if b.natIdx {
				return val{}, t.errf(e, "unsupported use of loop index %s (only as %s[%s] or %s[%s-c], c a literal <= %d)", e.Name, b.natOf, e.Name, b.natOf, e.Name, b.natMin)
			}
			return val{t.valueOf(b), b.ty}, nil
		}
		if vs, ok := t.pkg.Values[e.Name]; ok {
			return t.pkgConst(e.Name, vs, e)
		}
		return val{}, t.errf(e, "unsupported identifier %s (not a local variable, parameter or numeric package constant)", e.Name)
	case *ast.UnaryExpr:
		x, err := t.expr(e.X, env)
		if err != nil {
			return val{}, err
		}
		switch e.Op {
		case token.SUB:
			if x.ty.K != KFloat {
				return val{}, t.errf(e, "unary - on %s", x.ty)
			}
			// fold a negated literal
			if strings.HasPrefix(x.code, "(cofZ ") && !strings.Contains(x.code, "(-") {
				return val{"(cofZ (-" + strings.TrimSuffix(strings.TrimPrefix(x.code, "(cofZ "), ")") + "))", tFloat}, nil
			}
			if strings.HasPrefix(x.code, "(cofQ ") && !strings.Contains(x.code, "(-") {
				parts := strings.Fields(strings.TrimSuffix(strings.TrimPrefix(x.code, "(cofQ "), ")"))
				return val{"(cofQ (-" + parts[0] + ") " + parts[1] + ")", tFloat}, nil
			}
			return val{"(- " + x.code + ")", tFloat}, nil
		case token.ADD:
			return x, nil
		case token.NOT:
			if x.ty.K != KBool {
				return val{}, t.errf(e, "! on %s", x.ty)
			}
			return val{"(negb " + x.code + ")", tBool}, nil
		}
		return val{}, t.errf(e, "unsupported unary operator %s", e.Op)
	case *ast.BinaryExpr:
		x, err := t.expr(e.X, env)
		if err != nil {
			return val{}, err
		}
		y, err := t.expr(e.Y, env)
		if err != nil {
			return val{}, err
		}
		if x.ty.K == KInt || y.ty.K == KInt {
			// integer arithmetic (Z): the other operand is an int expression or an integer literal
			if x.ty.K != KInt {
				l, ok := intLit(e.X)
				if !ok {
					return val{}, t.errf(e, "unsupported operator %s on %s and %s", e.Op, x.ty, y.ty)
				}
				x = val{"(" + l + ")%Z", tInt}
			}
			if y.ty.K != KInt {
				l, ok := intLit(e.Y)
				if !ok {
					return val{}, t.errf(e, "unsupported operator %s on %s and %s", e.Op, x.ty, y.ty)
				}
				y = val{"(" + l + ")%Z", tInt}
			}
			switch e.Op {
			case token.ADD, token.SUB, token.MUL:
				return val{fmt.Sprintf("(%s %s %s)%%Z", x.code, e.Op, y.code), tInt}, nil
			case token.LSS:
				return val{fmt.Sprintf("(%s <? %s)%%Z", x.code, y.code), tBool}, nil
			case token.LEQ:
				return val{fmt.Sprintf("(%s <=? %s)%%Z", x.code, y.code), tBool}, nil
			case token.GTR:
				return val{fmt.Sprintf("(%s <? %s)%%Z", y.code, x.code), tBool}, nil
			case token.GEQ:
				return val{fmt.Sprintf("(%s <=? %s)%%Z", y.code, x.code), tBool}, nil
			case token.EQL:
				return val{fmt.Sprintf("(%s =? %s)%%Z", x.code, y.code), tBool}, nil
			case token.NEQ:
				return val{fmt.Sprintf("(negb (%s =? %s)%%Z)", x.code, y.code), tBool}, nil
			}
			return val{}, t.errf(e, "unsupported integer operator %s", e.Op)
		}
		switch e.Op {
		case token.LAND, token.LOR:
			if x.ty.K != KBool || y.ty.K != KBool {
				return val{}, t.errf(e, "%s on non-boolean operands", e.Op)
			}
			op := "andb"
			if e.Op == token.LOR {
				op = "orb"
			}
			return val{fmt.Sprintf("(%s %s %s)", op, x.code, y.code), tBool}, nil
		}
		if (e.Op == token.EQL || e.Op == token.NEQ) && x.ty.K == y.ty.K && (x.ty.K == KVec2 || x.ty.K == KVec3 || x.ty.K == KVec4) {
			// Go's == on vector values (structs of floats): component-wise equality
			var pr []string
			switch x.ty.K {
			case KVec2:
				pr = []string{"v2x", "v2y"}
			case KVec3:
				pr = []string{"v3x", "v3y", "v3z"}
			default:
				pr = []string{"v4x", "v4y", "v4z", "v4w"}
			}
			code := ""
			for i, f := range pr {
				c := fmt.Sprintf("((%s %s) =? (%s %s))", f, x.code, f, y.code)
				if i == 0 {
					code = c
				} else {
					code = fmt.Sprintf("(andb %s %s)", code, c)
				}
			}
			if e.Op == token.NEQ {
				code = "(negb " + code + ")"
			}
			return val{code, tBool}, nil
		}
		if x.ty.K != KFloat || y.ty.K != KFloat {
			return val{}, t.errf(e, "unsupported operator %s on %s and %s", e.Op, x.ty, y.ty)
		}
		switch e.Op {
		case token.ADD, token.SUB, token.MUL, token.QUO:
			return val{fmt.Sprintf("(%s %s %s)", x.code, e.Op, y.code), tFloat}, nil
		case token.LSS:
			return val{fmt.Sprintf("(%s <? %s)", x.code, y.code), tBool}, nil
		case token.LEQ:
			return val{fmt.Sprintf("(%s <=? %s)", x.code, y.code), tBool}, nil
		case token.GTR:
			return val{fmt.Sprintf("(%s >? %s)", x.code, y.code), tBool}, nil
		case token.GEQ:
			return val{fmt.Sprintf("(%s >=? %s)", x.code, y.code), tBool}, nil
		case token.EQL:
			return val{fmt.Sprintf("(%s =? %s)", x.code, y.code), tBool}, nil
		case token.NEQ:
			return val{fmt.Sprintf("(negb (%s =? %s))", x.code, y.code), tBool}, nil
		}
		return val{}, t.errf(e, "unsupported binary operator %s", e.Op)
	case *ast.SelectorExpr:
		// package constant?
		if id, ok := e.X.(*ast.Ident); ok && env.lookup(id.Name) == nil {
			if path, ok := t.imps[id.Name]; ok {
				if path == "math" && e.Sel.Name == "Pi" {
					return val{"cpi", tFloat}, nil
				}
				if mf, ok := mathFuncs[e.Sel.Name]; ok && path == "math" {
					// math.Min etc. used as a function VALUE (argument of a higher-order helper)
					ps := make([]Type, mf.n)
					return val{mf.coq, tFunc(tFloat, ps...)}, nil
				}
				return val{}, t.errf(e, "unsupported package-level value %s.%s", id.Name, e.Sel.Name)
			}
		}
		// field of an exploded variable
		if id, ok := e.X.(*ast.Ident); ok {
			if b := env.lookup(id.Name); b != nil && b.exploded {
				for _, f := range b.ty.S.Fields {
					if f.Name == e.Sel.Name {
						return val{b.fields[f.Name], f.T}, nil
					}
				}
				return val{}, t.errf(e, "struct %s has no field %s", b.ty.S.Name, e.Sel.Name)
			}
		}
		x, err := t.expr(e.X, env)
		if err != nil {
			return val{}, err
		}
		if x.ty.K != KStruct {
			return val{}, t.errf(e, "unsupported selector .%s on %s (method values are outside the subset)", e.Sel.Name, x.ty)
		}
		for _, f := range x.ty.S.Fields {
			if f.Name == e.Sel.Name {
				return val{fmt.Sprintf("(%s %s)", t.projName(x.ty.S, f.Name), x.code), f.T}, nil
			}
		}
		return val{}, t.errf(e, "struct %s has no field %s", x.ty.S.Name, e.Sel.Name)
	case *ast.CompositeLit:
		return t.composite(e, env)
	case *ast.CallExpr:
		return t.call(e, env)
	case *ast.FuncLit:
		return val{}, t.errf(e, "unsupported function literal (only `return func(...) {...}` of a constructor)")
	case *ast.IndexExpr:
		xs, err := t.expr(e.X, env)
		if err != nil {
			return val{}, err
		}
		if xs.ty.K != KList {
			return val{}, t.errf(e, "unsupported index expression on %s", xs.ty)
		}
		if v, handled, err := t.natIndex(e, xs, env); handled {
			return v, err
		}
		if id, ok := e.Index.(*ast.Ident); ok {
			if b := env.lookup(id.Name); b != nil && b.loopOf != "" {
				if xid, ok := e.X.(*ast.Ident); ok && xid.Name == b.loopOf {
					return val{b.elem, b.elemTy}, nil
				}
			}
		}
		// constant index: Go panics when it is out of range; the total model yields the zero value there
		k, ok := intLit(e.Index)
		if !ok || strings.HasPrefix(k, "-") {
			return val{}, t.errf(e, "unsupported index expression (only xs[<literal>] and the loop form xs[i])")
		}
		z, err := t.zero(xs.ty.Elems[0], e)
		if err != nil {
			return val{}, err
		}
		return val{fmt.Sprintf("(nth %s %s %s)", k, xs.code, z), xs.ty.Elems[0]}, nil
	case *ast.StarExpr:
		return val{}, t.errf(e, "unsupported pointer dereference")
	}
	return val{}, t.errf(e, "unsupported expression %T", e)
}

// numeric package-level constant (const k = 1e-10)
func (t *fnTr) pkgConst(name string, vs *ast.ValueSpec, at ast.Node) (val, error) {
	for i, n := range vs.Names {
		if n.Name == name && i < len(vs.Values) {
			if bl, ok := vs.Values[i].(*ast.BasicLit); ok && (bl.Kind == token.INT || bl.Kind == token.FLOAT) {
				return litCode(bl.Value, at, t)
			}
		}
	}
	return val{}, t.errf(at, "unsupported package-level value %s (only numeric constants)", name)
}

func (t *fnTr) composite(e *ast.CompositeLit, env *Env) (val, error) {
	if e.Type == nil {
		return val{}, t.errf(e, "unsupported untyped composite literal")
	}
	ty, _, err := t.resolveType(e.Type)
	if err != nil {
		return val{}, err
	}
	if ty.K != KStruct {
		return val{}, t.errf(e, "unsupported composite literal of type %s (vector literals: use the constructors)", ty)
	}
	s := ty.S
	vals := make([]string, len(s.Fields))
	keyed := len(e.Elts) > 0
	for _, el := range e.Elts {
		if _, ok := el.(*ast.KeyValueExpr); !ok {
			keyed = false
		}
	}
	if keyed || len(e.Elts) == 0 {
		for _, el := range e.Elts {
			kv := el.(*ast.KeyValueExpr)
			kid, ok := kv.Key.(*ast.Ident)
			if !ok {
				return val{}, t.errf(kv, "unsupported composite literal key")
			}
			idx := -1
			for i, f := range s.Fields {
				if f.Name == kid.Name {
					idx = i
				}
			}
			if idx < 0 {
				return val{}, t.errf(kv, "struct %s has no field %s", s.Name, kid.Name)
			}
			if vals[idx] != "" {
				return val{}, t.errf(kv, "duplicate field %s", kid.Name)
			}
			v, err := t.expr(kv.Value, env)
			if err != nil {
				return val{}, err
			}
			if !v.ty.eq(s.Fields[idx].T) {
				return val{}, t.errf(kv, "field %s of type %s given a %s", kid.Name, s.Fields[idx].T, v.ty)
			}
			vals[idx] = v.code
		}
		for i, f := range s.Fields {
			if vals[i] == "" {
				z, err := t.zero(f.T, e)
				if err != nil {
					return val{}, err
				}
				vals[i] = z
			}
		}
	} else {
		// positional: the i-th element initialises the i-th DECLARED field
		if len(e.Elts) != len(s.Fields) {
			return val{}, t.errf(e, "positional literal of %s with %d of %d fields", s.Name, len(e.Elts), len(s.Fields))
		}
		for i, el := range e.Elts {
			if _, ok := el.(*ast.KeyValueExpr); ok {
				return val{}, t.errf(el, "mixed keyed and positional composite literal")
			}
			v, err := t.expr(el, env)
			if err != nil {
				return val{}, err
			}
			if !v.ty.eq(s.Fields[i].T) {
				return val{}, t.errf(el, "field %s of type %s given a %s", s.Fields[i].Name, s.Fields[i].T, v.ty)
			}
			vals[i] = v.code
		}
	}
	for i, f := range s.Fields {
		vals[i] = "(* " + f.Name + " := *) " + vals[i]
	}
	return val{"(" + strings.Join(append([]string{t.ctorName(s)}, vals...), "\n   ") + ")", ty}, nil
}
