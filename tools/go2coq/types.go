package main

import (
	"fmt"
	"go/ast"
	"path/filepath"
	"strings"
)

type Kind int

const (
	KFloat Kind = iota
	KBool
	KVec2
	KVec3
	KVec4
	KStruct
	KFunc
	KTuple
	KVoid
	KInt  // Go int: only len(xs), integer literals, comparisons and + - * (Coq Z)
	KList // variadic parameter / slice of a supported type, read-only (Coq list)
)

type Type struct {
	K      Kind
	S      *Struct
	Params []Type // KFunc
	Elems  []Type // KFunc: one result; KTuple: components; KList: element type
}

type Field struct {
	Name string
	T    Type
}

// Struct is a Go struct type declaration that becomes a Coq Record.
type Struct struct {
	Mod    *Module
	Name   string
	Fields []Field
	Origin string
}

func (s *Struct) ctor() string         { return "mk" + s.Name }
func (s *Struct) proj(f string) string { return s.Name + "_" + f }

var (
	tFloat = Type{K: KFloat}
	tBool  = Type{K: KBool}
	tV2    = Type{K: KVec2}
	tV3    = Type{K: KVec3}
	tV4    = Type{K: KVec4}
	tVoid  = Type{K: KVoid}
	tInt   = Type{K: KInt}
)

func tList(elem Type) Type { return Type{K: KList, Elems: []Type{elem}} }

func tFunc(res Type, params ...Type) Type { return Type{K: KFunc, Params: params, Elems: []Type{res}} }

func (t Type) String() string {
	switch t.K {
	case KFloat:
		return "float64"
	case KBool:
		return "bool"
	case KVec2:
		return "vector2"
	case KVec3:
		return "vector3"
	case KVec4:
		return "vector4"
	case KStruct:
		return t.S.Name
	case KFunc:
		return "func"
	case KTuple:
		return "tuple"
	case KInt:
		return "int"
	case KList:
		return "[]" + t.Elems[0].String()
	}
	return "void"
}

func (t Type) eq(o Type) bool {
	if t.K != o.K {
		return false
	}
	switch t.K {
	case KStruct:
		return t.S == o.S
	case KFunc, KTuple, KList:
		if len(t.Params) != len(o.Params) || len(t.Elems) != len(o.Elems) {
			return false
		}
		for i := range t.Params {
			if !t.Params[i].eq(o.Params[i]) {
				return false
			}
		}
		for i := range t.Elems {
			if !t.Elems[i].eq(o.Elems[i]) {
				return false
			}
		}
	}
	return true
}

// coq renders the type inside module m's Section (carrier F).
func (t Type) coq(m *Module) string {
	switch t.K {
	case KFloat:
		return "F"
	case KBool:
		return "bool"
	case KVec2:
		return "vec2 F"
	case KVec3:
		return "vec3 F"
	case KVec4:
		return "vec4 F"
	case KStruct:
		if t.S.Mod == m {
			return t.S.Name
		}
		return t.S.Mod.Name + "." + t.S.Name + " F"
	case KFunc:
		var ps []string
		for _, p := range t.Params {
			ps = append(ps, paren(p.coq(m)))
		}
		ps = append(ps, paren(t.Elems[0].coq(m)))
		return strings.Join(ps, " -> ")
	case KTuple:
		var ps []string
		for _, p := range t.Elems {
			ps = append(ps, paren(p.coq(m)))
		}
		return strings.Join(ps, " * ")
	case KInt:
		return "Z"
	case KList:
		return "list " + paren(t.Elems[0].coq(m))
	}
	return "unit"
}

func paren(s string) string {
	if strings.ContainsAny(s, " ") && !(strings.HasPrefix(s, "(") && strings.HasSuffix(s, ")")) {
		return "(" + s + ")"
	}
	return s
}

const vectorPath = "github.com/EliCDavis/vector/"

// fileCtx: where a piece of syntax lives (for import resolution and positions).
type fileCtx struct {
	w    *World
	mod  *Module // module being generated (records cross-module imports)
	pkg  *Package
	file *ast.File
	imps map[string]string
}

func (c *fileCtx) errf(n ast.Node, format string, a ...interface{}) error {
	return &Terr{c.pkg.Fset.Position(n.Pos()), fmt.Sprintf(format, a...)}
}

// resolveType maps a Go type expression to the translator's types. ptr reports a leading '*'.
func (c *fileCtx) resolveType(e ast.Expr) (t Type, ptr bool, err error) {
	switch e := e.(type) {
	case *ast.StarExpr:
		t, _, err = c.resolveType(e.X)
		return t, true, err
	case *ast.ParenExpr:
		return c.resolveType(e.X)
	case *ast.Ident:
		switch e.Name {
		case "float64":
			return tFloat, false, nil
		case "bool":
			return tBool, false, nil
		case "float32", "int", "int8", "int16", "int32", "int64", "uint", "uint8", "uint16", "uint32", "uint64", "string", "byte", "error", "any":
			return t, false, c.errf(e, "unsupported type %s (only float64, bool, vectors, structs of those and functions over them)", e.Name)
		}
		return c.namedType(c.pkg, e.Name, e)
	case *ast.SelectorExpr:
		id, ok := e.X.(*ast.Ident)
		if !ok {
			return t, false, c.errf(e, "unsupported type expression")
		}
		path, ok := c.imps[id.Name]
		if !ok {
			return t, false, c.errf(e, "unknown package %s in type", id.Name)
		}
		if strings.HasPrefix(path, vectorPath) {
			sub := strings.TrimPrefix(path, vectorPath)
			if e.Sel.Name != "Float64" && e.Sel.Name != "Vector" {
				return t, false, c.errf(e, "unsupported vector type %s.%s (only the float64 instances)", sub, e.Sel.Name)
			}
			switch sub {
			case "vector2":
				return tV2, false, nil
			case "vector3":
				return tV3, false, nil
			case "vector4":
				return tV4, false, nil
			}
			return t, false, c.errf(e, "unsupported vector package %s", sub)
		}
		p, lerr := c.w.loadPkg(path)
		if lerr != nil {
			return t, false, c.errf(e, "type %s.%s: %v", id.Name, e.Sel.Name, lerr)
		}
		return c.namedType(p, e.Sel.Name, e)
	case *ast.IndexExpr: // vector3.Vector[float64]
		if id, ok := e.Index.(*ast.Ident); !ok || id.Name != "float64" {
			return t, false, c.errf(e, "unsupported generic instantiation (only [float64])")
		}
		return c.resolveType(e.X)
	case *ast.ArrayType: // slice: a read-only list (arrays with a length are outside the subset)
		if e.Len != nil {
			return t, false, c.errf(e, "unsupported array type (only slices)")
		}
		et, p, err := c.resolveType(e.Elt)
		if err != nil {
			return t, false, err
		}
		if p {
			return t, false, c.errf(e, "unsupported slice of pointers")
		}
		return tList(et), false, nil
	case *ast.Ellipsis: // variadic parameter: a read-only list
		et, p, err := c.resolveType(e.Elt)
		if err != nil {
			return t, false, err
		}
		if p {
			return t, false, c.errf(e, "unsupported variadic parameter of pointers")
		}
		return tList(et), false, nil
	case *ast.FuncType:
		ft := Type{K: KFunc}
		for _, f := range e.Params.List {
			pt, p, err := c.resolveType(f.Type)
			if err != nil {
				return t, false, err
			}
			if p {
				return t, false, c.errf(f.Type, "unsupported pointer argument in function type")
			}
			n := len(f.Names)
			if n == 0 {
				n = 1
			}
			for i := 0; i < n; i++ {
				ft.Params = append(ft.Params, pt)
			}
		}
		if e.Results == nil || len(e.Results.List) != 1 || len(e.Results.List[0].Names) > 1 {
			return t, false, c.errf(e, "unsupported function type (exactly one result expected)")
		}
		rt, p, err := c.resolveType(e.Results.List[0].Type)
		if err != nil {
			return t, false, err
		}
		if p {
			return t, false, c.errf(e, "unsupported pointer result in function type")
		}
		ft.Elems = []Type{rt}
		return ft, false, nil
	}
	return t, false, c.errf(e, "unsupported type expression %T", e)
}

// namedType resolves a type name declared in package p.
func (c *fileCtx) namedType(p *Package, name string, at ast.Node) (Type, bool, error) {
	ts, ok := p.Types[name]
	if !ok {
		return Type{}, false, c.errf(at, "type %s not found in package %s", name, p.Dir)
	}
	if ts.TypeParams != nil {
		return Type{}, false, c.errf(at, "unsupported generic type %s", name)
	}
	switch u := ts.Type.(type) {
	case *ast.StructType:
		s, err := c.structOf(p, name, ts, u)
		if err != nil {
			return Type{}, false, err
		}
		return Type{K: KStruct, S: s}, false, nil
	default:
		// defined/alias type over something else (e.g. sample.Vec3ToFloat): use the underlying type
		sub := &fileCtx{w: c.w, mod: c.mod, pkg: p, file: p.FileOf[ts], imps: fileImports(p.FileOf[ts])}
		t, ptr, err := sub.resolveType(u)
		return t, ptr, err
	}
}

// structOf registers the Go struct p.name as a Record of the module that owns package p.
func (c *fileCtx) structOf(p *Package, name string, ts *ast.TypeSpec, st *ast.StructType) (*Struct, error) {
	if s, ok := p.structs[name]; ok {
		if s.Fields == nil {
			return nil, c.errf(ts, "recursive struct %s", name)
		}
		c.noteImport(s.Mod)
		return s, nil
	}
	owner := c.w.ModByPath[p.ImportPath]
	for _, m := range c.w.Mods { // a module that claims the type with a `type` line owns its Record
		if m.ImportPath == p.ImportPath {
			for _, tn := range m.Types {
				if tn == name {
					owner = m
				}
			}
		}
	}
	if owner == nil {
		return nil, c.errf(ts, "struct %s.%s: package %s is not a module of the spec (add a `module` line for it)", filepath.Base(p.Dir), name, p.Dir)
	}
	pos := p.Fset.Position(ts.Pos())
	s := &Struct{Mod: owner, Name: name, Origin: fmt.Sprintf("%s/%s: type %s", p.Dir, filepath.Base(pos.Filename), name)}
	p.structs[name] = s
	sub := &fileCtx{w: c.w, mod: owner, pkg: p, file: p.FileOf[ts], imps: fileImports(p.FileOf[ts])}
	var fields []Field
	for _, f := range st.Fields.List {
		ft, ptr, err := sub.resolveType(f.Type)
		if err != nil {
			return nil, err
		}
		if ptr {
			return nil, sub.errf(f.Type, "unsupported pointer field in struct %s", name)
		}
		if len(f.Names) == 0 {
			return nil, sub.errf(f, "unsupported embedded field in struct %s", name)
		}
		for _, n := range f.Names {
			fields = append(fields, Field{n.Name, ft})
		}
	}
	if fields == nil {
		fields = []Field{}
	}
	s.Fields = fields
	owner.structs = append(owner.structs, s)
	c.noteImport(owner)
	return s, nil
}

func (c *fileCtx) noteImport(owner *Module) {
	if c.mod != nil && owner != c.mod {
		c.mod.imports[owner.Name] = true
	}
}
