package main

import (
	"fmt"
	"go/ast"
	"go/token"
	"math/big"
	"strings"
)

// translateTable: `table name` (package-level var) or `table Func.name` / `table Type.Method.name`
// (a variable initialised by a composite literal inside a function).  Integer tables only:
// []int / [N]int / [...]int -> list Z, one more nesting level -> list (list Z); an element that is a
// struct literal of integers ({X: 0, Y: 1, Z: 0}) becomes the list of its values in written order.
func (w *World) translateTable(m *Module, spec string) error {
	p := m.Pkg
	var lit *ast.CompositeLit
	name := spec
	at := token.Position{Filename: m.SpecFile}
	if i := strings.LastIndex(spec, "."); i >= 0 {
		fkey, v := spec[:i], spec[i+1:]
		name = v
		fd, ok := p.Funcs[fkey]
		if !ok {
			return &Terr{at, fmt.Sprintf("table %s: function %s not found in %s", spec, fkey, p.Dir)}
		}
		ast.Inspect(fd, func(n ast.Node) bool {
			if as, ok := n.(*ast.AssignStmt); ok && len(as.Lhs) == 1 && len(as.Rhs) == 1 {
				if id, ok := as.Lhs[0].(*ast.Ident); ok && id.Name == v {
					if cl, ok := as.Rhs[0].(*ast.CompositeLit); ok && lit == nil {
						lit = cl
					}
				}
			}
			return true
		})
	} else if vs, ok := p.Values[spec]; ok {
		for i, n := range vs.Names {
			if n.Name == spec && i < len(vs.Values) {
				lit, _ = vs.Values[i].(*ast.CompositeLit)
			}
		}
	}
	if lit == nil {
		return &Terr{at, fmt.Sprintf("table %s not found as a composite-literal variable in %s", spec, p.Dir)}
	}
	depth := 0
	body, err := tableLit(p, lit, &depth)
	if err != nil {
		return err
	}
	ty := "Z"
	for i := 0; i < depth; i++ {
		ty = "list " + paren(ty)
	}
	pos := p.Fset.Position(lit.Pos())
	m.tableOut = append(m.tableOut, fmt.Sprintf("(* %s/%s:%d  %s *)\nDefinition %s : %s :=\n  %s%%Z.\n",
		p.Dir, baseName(pos.Filename), pos.Line, spec, name, ty, body))
	return nil
}

func tableLit(p *Package, e ast.Expr, depth *int) (string, error) {
	bad := func(n ast.Node, msg string) error { return &Terr{p.Fset.Position(n.Pos()), "table: " + msg} }
	switch e := e.(type) {
	case *ast.KeyValueExpr:
		return tableLit(p, e.Value, depth)
	case *ast.ParenExpr:
		return tableLit(p, e.X, depth)
	case *ast.BasicLit:
		if e.Kind != token.INT {
			return "", bad(e, "unsupported element "+e.Value+" (integer tables only)")
		}
		z, ok := new(big.Int).SetString(strings.ReplaceAll(e.Value, "_", ""), 0)
		if !ok {
			return "", bad(e, "bad integer "+e.Value)
		}
		*depth = 0
		return z.String(), nil
	case *ast.UnaryExpr:
		if bl, ok := e.X.(*ast.BasicLit); ok && e.Op == token.SUB && bl.Kind == token.INT {
			z, ok := new(big.Int).SetString(strings.ReplaceAll(bl.Value, "_", ""), 0)
			if !ok {
				return "", bad(e, "bad integer "+bl.Value)
			}
			*depth = 0
			return "(-" + z.String() + ")", nil
		}
		return "", bad(e, "unsupported element expression")
	case *ast.CompositeLit:
		var parts []string
		sub := -1
		for _, el := range e.Elts {
			d := 0
			s, err := tableLit(p, el, &d)
			if err != nil {
				return "", err
			}
			if sub >= 0 && d != sub {
				return "", bad(el, "ragged nesting")
			}
			sub = d
			parts = append(parts, s)
		}
		if sub < 0 {
			sub = 0
		}
		*depth = sub + 1
		sep := "; "
		if sub > 0 {
			sep = ";\n   "
		}
		return "[" + strings.Join(parts, sep) + "]", nil
	}
	return "", bad(e, fmt.Sprintf("unsupported element %T", e))
}
