package main

// "Previous element" map idiom (three consecutive statements, matched together):
//
//	ys := make([]T, len(xs)-K)                       K a positive literal
//	prev := xs[K-1]
//	for i, x := range xs[K:] { ys[i] = E; prev = x }  E mentions neither i nor ys; prev is not read after the loop
//
// Iteration i sees x = xs[K+i] and prev = xs[K-1+i], and the stores fill ys exactly, so
//
//	let ys := map (fun i : nat => let x := nth (i + K) xs zero in let prev := nth (i + (K-1)) xs zero in E)
//	              (seq 0 (length xs - K)) in ...
//
// Every near miss (another length, another initial value, more statements in the body, `prev = x` not last, prev read
// afterwards ...) is not this idiom and falls through to the ordinary rules (which reject make([]T, len(xs)-K)).

import (
	"fmt"
	"go/ast"
	"go/token"
	"strconv"
)

func identNamed(e ast.Expr) (string, bool) {
	id, ok := e.(*ast.Ident)
	if !ok || id.Name == "_" {
		return "", false
	}
	return id.Name, true
}

func mentionsIdent(n ast.Node, name string) bool {
	found := false
	ast.Inspect(n, func(m ast.Node) bool {
		switch m := m.(type) {
		case *ast.SelectorExpr:
			if mentionsIdent(m.X, name) {
				found = true
			}
			return false
		case *ast.KeyValueExpr:
			if mentionsIdent(m.Value, name) {
				found = true
			}
			return false
		case *ast.Ident:
			if m.Name == name {
				found = true
			}
		}
		return true
	})
	return found
}

// lenOfIdent: len(xs) with xs an identifier
func lenOfIdent(e ast.Expr, env *Env) (string, bool) {
	c, ok := e.(*ast.CallExpr)
	if !ok || len(c.Args) != 1 || c.Ellipsis != token.NoPos {
		return "", false
	}
	f, ok := c.Fun.(*ast.Ident)
	if !ok || f.Name != "len" || env.lookup("len") != nil {
		return "", false
	}
	return identNamed(c.Args[0])
}

// prevMap: matched=false when the statements are not the idiom (nothing consumed).
func (t *fnTr) prevMap(list []ast.Stmt, env *Env) (lets []string, matched bool, err error) {
	if len(list) < 3 {
		return nil, false, nil
	}
	// ys := make([]T, len(xs)-K)
	s0, ok := list[0].(*ast.AssignStmt)
	if !ok || s0.Tok != token.DEFINE || len(s0.Lhs) != 1 || len(s0.Rhs) != 1 {
		return nil, false, nil
	}
	ys, ok := identNamed(s0.Lhs[0])
	if !ok {
		return nil, false, nil
	}
	mc, ok := isMakeCall(s0.Rhs[0], env)
	if !ok || len(mc.Args) != 2 {
		return nil, false, nil
	}
	ln, ok := mc.Args[1].(*ast.BinaryExpr)
	if !ok || ln.Op != token.SUB {
		return nil, false, nil
	}
	xs, ok := lenOfIdent(ln.X, env)
	if !ok {
		return nil, false, nil
	}
	kLit, ok := intLit(ln.Y)
	if !ok {
		return nil, false, nil
	}
	k, cerr := strconv.Atoi(kLit)
	if cerr != nil || k < 1 || k > 1<<20 {
		return nil, false, nil
	}
	// prev := xs[K-1]
	s1, ok := list[1].(*ast.AssignStmt)
	if !ok || s1.Tok != token.DEFINE || len(s1.Lhs) != 1 || len(s1.Rhs) != 1 {
		return nil, false, nil
	}
	prev, ok := identNamed(s1.Lhs[0])
	if !ok {
		return nil, false, nil
	}
	ix1, ok := s1.Rhs[0].(*ast.IndexExpr)
	if !ok {
		return nil, false, nil
	}
	if n, ok := identNamed(ix1.X); !ok || n != xs {
		return nil, false, nil
	}
	if l, ok := intLit(ix1.Index); !ok || l != strconv.Itoa(k-1) {
		return nil, false, nil
	}
	// for i, x := range xs[K:] { ys[i] = E; prev = x }
	s2, ok := list[2].(*ast.RangeStmt)
	if !ok || s2.Tok != token.DEFINE || s2.Key == nil || s2.Value == nil || len(s2.Body.List) != 2 {
		return nil, false, nil
	}
	iv, ok1 := identNamed(s2.Key)
	xv, ok2 := identNamed(s2.Value)
	if !ok1 || !ok2 {
		return nil, false, nil
	}
	se, ok := s2.X.(*ast.SliceExpr)
	if !ok || se.High != nil || se.Max != nil || se.Slice3 || se.Low == nil {
		return nil, false, nil
	}
	if n, ok := identNamed(se.X); !ok || n != xs {
		return nil, false, nil
	}
	if l, ok := intLit(se.Low); !ok || l != kLit {
		return nil, false, nil
	}
	st, ok := s2.Body.List[0].(*ast.AssignStmt)
	if !ok || st.Tok != token.ASSIGN || len(st.Lhs) != 1 || len(st.Rhs) != 1 {
		return nil, false, nil
	}
	six, ok := st.Lhs[0].(*ast.IndexExpr)
	if !ok {
		return nil, false, nil
	}
	if n, ok := identNamed(six.X); !ok || n != ys {
		return nil, false, nil
	}
	if n, ok := identNamed(six.Index); !ok || n != iv {
		return nil, false, nil
	}
	up, ok := s2.Body.List[1].(*ast.AssignStmt)
	if !ok || up.Tok != token.ASSIGN || len(up.Lhs) != 1 || len(up.Rhs) != 1 {
		return nil, false, nil
	}
	if n, ok := identNamed(up.Lhs[0]); !ok || n != prev {
		return nil, false, nil
	}
	if n, ok := identNamed(up.Rhs[0]); !ok || n != xv {
		return nil, false, nil
	}
	names := map[string]bool{ys: true, xs: true, prev: true, iv: true, xv: true}
	if len(names) != 5 {
		return nil, false, nil
	}
	if mentionsIdent(st.Rhs[0], iv) || mentionsIdent(st.Rhs[0], ys) {
		return nil, false, nil
	}
	for _, later := range list[3:] {
		if mentionsIdent(later, prev) {
			return nil, false, nil
		}
	}
	// ---- the idiom: translate
	xb := env.lookup(xs)
	if xb == nil || xb.ty.K != KList || xb.exploded {
		return nil, false, nil
	}
	if env.lookup(ys) != nil && env.inTop(ys) {
		return nil, true, t.errf(s0, "%s redeclared", ys)
	}
	lty, ptr, rerr := t.resolveType(mc.Args[0])
	if rerr != nil {
		return nil, true, rerr
	}
	if ptr || lty.K != KList {
		return nil, true, t.errf(mc, "unsupported make (only slices)")
	}
	elemTy := xb.ty.Elems[0]
	z, zerr := t.zero(elemTy, s1)
	if zerr != nil {
		return nil, true, zerr
	}
	inner := env.clone().push()
	idxName := t.fresh(iv)
	xName := t.fresh(xv)
	pName := t.fresh(prev)
	inner.define(xv, &binding{name: xName, ty: elemTy})
	inner.define(prev, &binding{name: pName, ty: elemTy})
	mark := len(t.calleePanics)
	v, eerr := t.expr(st.Rhs[0], inner)
	if eerr != nil {
		return nil, true, eerr
	}
	if !v.ty.eq(lty.Elems[0]) {
		return nil, true, t.errf(st, "element of type %s stored into %s", v.ty, lty)
	}
	if perr := t.noCalleePanicsSince(mark, s2, "a loop body"); perr != nil {
		return nil, true, perr
	}
	body := joinLets([]string{
		fmt.Sprintf("let %s := (nth (%s + %d)%%nat %s %s) in", xName, idxName, k, xb.name, z),
		fmt.Sprintf("let %s := (nth (%s + %d)%%nat %s %s) in", pName, idxName, k-1, xb.name, z),
	}, v.code)
	code := fmt.Sprintf("(map (fun %s : nat =>\n%s) (seq 0 (length %s - %d)%%nat))", idxName, indent(body, "    "), xb.name, k)
	lets, berr := t.bind(ys, val{code, lty}, env, true, s0)
	if berr != nil {
		return nil, true, berr
	}
	return lets, true, nil
}
