module verif/go2coq

go 1.21.0
