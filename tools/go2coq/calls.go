package main

import (
	"go/ast"
	"go/token"
	"strings"
)

// prelude entry: Coq name in Geom/Vec.v, parameter types (after the receiver), result type.
type pre struct {
	coq    string
	params []Type
	res    Type
}

func vecTables(prefix string, self Type) (funcs, methods map[string]pre) {
	p := func(n string) string { return prefix + "_" + n }
	funcs = map[string]pre{
		"Zero": {p("zero"), nil, self},
		"One":  {p("one"), nil, self},
		"Fill": {p("fill"), []Type{tFloat}, self},
		"Min":  {p("min"), []Type{self, self}, self},
		"Max":  {p("max"), []Type{self, self}, self},
	}
	methods = map[string]pre{
		"Add":           {p("add"), []Type{self}, self},
		"Sub":           {p("sub"), []Type{self}, self},
		"Scale":         {p("scale"), []Type{tFloat}, self},
		"DivByConstant": {p("div_by_constant"), []Type{tFloat}, self},
		"MultByVector":  {p("mult_by_vector"), []Type{self}, self},
		"Dot":           {p("dot"), []Type{self}, tFloat},
		"Normalized":    {p("normalized"), nil, self},
		"Length":        {p("length"), nil, tFloat},
		"LengthSquared": {p("length_squared"), nil, tFloat},
		"Abs":           {p("abs"), nil, self},
		"MinComponent":  {p("min_component"), nil, tFloat},
		"MaxComponent":  {p("max_component"), nil, tFloat},
	}
	return
}

var (
	v2Funcs, v2Methods = vecTables("v2", tV2)
	v3Funcs, v3Methods = vecTables("v3", tV3)
	v4Funcs, v4Methods = vecTables("v4", tV4)
	preludeNames       []string
)

func init() {
	v2Funcs["New"] = pre{"v2_new", []Type{tFloat, tFloat}, tV2}
	for n, c := range map[string]string{"Up": "v2_up", "Down": "v2_down", "Left": "v2_left", "Right": "v2_right"} {
		v2Funcs[n] = pre{c, nil, tV2}
	}
	v3Funcs["New"] = pre{"v3_new", []Type{tFloat, tFloat, tFloat}, tV3}
	for n, c := range map[string]string{"Up": "v3_up", "Down": "v3_down", "Left": "v3_left", "Right": "v3_right",
		"Forward": "v3_forward", "Backwards": "v3_backwards"} {
		v3Funcs[n] = pre{c, nil, tV3}
	}
	v4Funcs["New"] = pre{"v4_new", []Type{tFloat, tFloat, tFloat, tFloat}, tV4}

	for n, c := range map[string]string{"X": "v2x", "Y": "v2y"} {
		v2Methods[n] = pre{c, nil, tFloat}
	}
	for n, c := range map[string]string{"X": "v3x", "Y": "v3y", "Z": "v3z"} {
		v3Methods[n] = pre{c, nil, tFloat}
	}
	for n, c := range map[string]string{"X": "v4x", "Y": "v4y", "Z": "v4z", "W": "v4w"} {
		v4Methods[n] = pre{c, nil, tFloat}
	}
	v2Methods["SetX"] = pre{"v2_set_x", []Type{tFloat}, tV2}
	v2Methods["SetY"] = pre{"v2_set_y", []Type{tFloat}, tV2}
	v3Methods["SetX"] = pre{"v3_set_x", []Type{tFloat}, tV3}
	v3Methods["SetY"] = pre{"v3_set_y", []Type{tFloat}, tV3}
	v3Methods["SetZ"] = pre{"v3_set_z", []Type{tFloat}, tV3}
	v4Methods["SetX"] = pre{"v4_set_x", []Type{tFloat}, tV4}
	v4Methods["SetY"] = pre{"v4_set_y", []Type{tFloat}, tV4}
	v4Methods["SetZ"] = pre{"v4_set_z", []Type{tFloat}, tV4}
	v4Methods["SetW"] = pre{"v4_set_w", []Type{tFloat}, tV4}

	v2Methods["Distance"] = pre{"v2_distance", []Type{tV2}, tFloat}
	v2Methods["DistanceSquared"] = pre{"v2_distance_squared", []Type{tV2}, tFloat}
	v2Methods["Clamp"] = pre{"v2_clamp", []Type{tFloat, tFloat}, tV2}
	v2Methods["Flip"] = pre{"v2_flip", nil, tV2}
	v2Methods["Perpendicular"] = pre{"v2_perpendicular", nil, tV2}
	v2Methods["Midpoint"] = pre{"v2_midpoint", []Type{tV2}, tV2}
	v2Methods["YX"] = pre{"v2_yx", nil, tV2}

	v3Methods["Cross"] = pre{"v3_cross", []Type{tV3}, tV3}
	v3Methods["Distance"] = pre{"v3_distance", []Type{tV3}, tFloat}
	v3Methods["DistanceSquared"] = pre{"v3_distance_squared", []Type{tV3}, tFloat}
	v3Methods["Clamp"] = pre{"v3_clamp", []Type{tFloat, tFloat}, tV3}
	v3Methods["Flip"] = pre{"v3_flip", nil, tV3}
	v3Methods["Midpoint"] = pre{"v3_midpoint", []Type{tV3}, tV3}
	v3Methods["Reflect"] = pre{"v3_reflect", []Type{tV3}, tV3}
	for n, c := range map[string]string{"XY": "v3_xy", "XZ": "v3_xz", "YZ": "v3_yz", "YX": "v3_yx", "ZX": "v3_zx", "ZY": "v3_zy"} {
		v3Methods[n] = pre{c, nil, tV2}
	}
	v4Methods["XYZ"] = pre{"v4_xyz", nil, tV3}
	v4Methods["XY"] = pre{"v4_xy", nil, tV2}

	for _, tab := range []map[string]pre{v2Funcs, v2Methods, v3Funcs, v3Methods, v4Funcs, v4Methods} {
		for _, e := range tab {
			preludeNames = append(preludeNames, e.coq)
		}
	}
	preludeNames = append(preludeNames, "czero", "cone", "chalf", "cclamp", "c0", "c1", "cadd", "cmul", "csub", "copp",
		"cdiv", "csqrt", "cabs", "cmax", "cmin", "csin", "ccos", "cpi", "cltb", "cleb", "ceqb", "cofZ", "cofQ",
		"mkV2", "mkV3", "mkV4", "vec2", "vec3", "vec4")
}

// math.* functions of one or two float arguments
var mathFuncs = map[string]struct {
	coq string
	n   int
}{
	"Sqrt": {"csqrt", 1}, "Abs": {"cabs", 1}, "Sin": {"csin", 1}, "Cos": {"ccos", 1},
	"Max": {"cmax", 2}, "Min": {"cmin", 2},
}

func (t *fnTr) call(e *ast.CallExpr, env *Env) (val, error) {
	if e.Ellipsis != token.NoPos && !t.callsDeclaredFunc(e, env) {
		return val{}, t.errf(e, "unsupported variadic call (xs... only in a call of a declared variadic function of the repository)")
	}
	fun := e.Fun
	// explicit instantiation f[float64](...)
	if ix, ok := fun.(*ast.IndexExpr); ok {
		if id, ok := ix.Index.(*ast.Ident); ok && id.Name == "float64" && env.lookup("float64") == nil {
			fun = ix.X
		} else if xid, ok := ix.X.(*ast.Ident); ok && env.lookup(xid.Name) != nil {
			// xs[k](args): call of a function-valued list element
			fv, err := t.expr(ix, env)
			if err != nil {
				return val{}, err
			}
			if fv.ty.K != KFunc {
				return val{}, t.errf(e, "call of an indexed value which is not a function")
			}
			args, err := t.argVals(e.Args, fv.ty.Params, env, e)
			if err != nil {
				return val{}, err
			}
			return val{"(" + strings.Join(append([]string{fv.code}, args...), " ") + ")", fv.ty.Elems[0]}, nil
		} else {
			return val{}, t.errf(e, "unsupported generic instantiation (only [float64])")
		}
	}
	switch f := fun.(type) {
	case *ast.ParenExpr:
		return val{}, t.errf(e, "unsupported call of a parenthesised expression")
	case *ast.Ident:
		// local function value
		if b := env.lookup(f.Name); b != nil {
			if b.ty.K != KFunc {
				return val{}, t.errf(e, "call of %s which is not a function", f.Name)
			}
			args, err := t.argVals(e.Args, b.ty.Params, env, e)
			if err != nil {
				return val{}, err
			}
			return val{"(" + strings.Join(append([]string{b.name}, args...), " ") + ")", b.ty.Elems[0]}, nil
		}
		switch f.Name {
		case "float64":
			if len(e.Args) != 1 {
				return val{}, t.errf(e, "bad conversion")
			}
			v, err := t.expr(e.Args[0], env)
			if err != nil {
				return val{}, err
			}
			if v.ty.K != KFloat {
				return val{}, t.errf(e, "unsupported conversion of %s to float64", v.ty)
			}
			return v, nil
		case "len":
			if len(e.Args) != 1 {
				return val{}, t.errf(e, "bad len call")
			}
			v, err := t.expr(e.Args[0], env)
			if err != nil {
				return val{}, err
			}
			if v.ty.K != KList {
				return val{}, t.errf(e, "unsupported len of %s", v.ty)
			}
			return val{"(Z.of_nat (length " + v.code + "))", tInt}, nil
		case "panic", "cap", "append", "make", "new", "copy", "delete", "min", "max", "float32", "int", "int64", "int32", "uint8", "byte":
			return val{}, t.errf(e, "unsupported builtin %s", f.Name)
		}
		// function of the same package
		fd, ok := t.pkg.Funcs[f.Name]
		if !ok {
			return val{}, t.errf(e, "call of unknown function %s", f.Name)
		}
		ref, err := t.funcRef(t.pkg, f.Name, e)
		if err != nil {
			return val{}, err
		}
		return t.applyDecl(ref, "", fd, t.pkg, e, env)
	case *ast.SelectorExpr:
		if id, ok := f.X.(*ast.Ident); ok && env.lookup(id.Name) == nil {
			if path, ok := t.imps[id.Name]; ok {
				return t.pkgCall(path, id.Name, f.Sel.Name, e, env)
			}
		}
		recv, err := t.expr(f.X, env)
		if err != nil {
			return val{}, err
		}
		var tab map[string]pre
		switch recv.ty.K {
		case KVec2:
			tab = v2Methods
		case KVec3:
			tab = v3Methods
		case KVec4:
			tab = v4Methods
		case KStruct:
			ref, fd, err := t.methodRef(recv.ty.S, f.Sel.Name, e)
			if err != nil {
				return val{}, err
			}
			if _, isPtr := fd.Recv.List[0].Type.(*ast.StarExpr); isPtr && (fd.Type.Results == nil || len(fd.Type.Results.List) == 0) {
				return val{}, t.errf(e, "unsupported: result-less method %s used as a value", f.Sel.Name)
			}
			owner, _ := t.w.loadPkg(recv.ty.S.Mod.ImportPath)
			return t.applyDecl(ref, recv.code, fd, owner, e, env)
		default:
			return val{}, t.errf(e, "unsupported method call .%s on %s", f.Sel.Name, recv.ty)
		}
		p, ok := tab[f.Sel.Name]
		if !ok {
			return val{}, t.errf(e, "unsupported %s method %s (not in the Vec.v prelude)", recv.ty, f.Sel.Name)
		}
		args, err := t.argVals(e.Args, p.params, env, e)
		if err != nil {
			return val{}, err
		}
		return val{"(" + strings.Join(append([]string{p.coq, recv.code}, args...), " ") + ")", p.res}, nil
	}
	return val{}, t.errf(e, "unsupported call form %T", fun)
}

// pkgCall: pkg.Func(args) for math, the vector packages, or another package of the repository.
func (t *fnTr) pkgCall(path, local, name string, e *ast.CallExpr, env *Env) (val, error) {
	if path == "math" {
		if name == "Pow" {
			if len(e.Args) == 2 {
				if ex, err := t.expr(e.Args[1], env); err == nil && ex.code == "(cofZ 2)" {
					x, err := t.expr(e.Args[0], env)
					if err != nil {
						return val{}, err
					}
					if x.ty.K != KFloat {
						return val{}, t.errf(e, "math.Pow of %s", x.ty)
					}
					return val{"(" + x.code + " * " + x.code + ")", tFloat}, nil
				}
			}
			return val{}, t.errf(e, "unsupported math.Pow (only an exponent literal 2, translated as x*x)")
		}
		mf, ok := mathFuncs[name]
		if !ok {
			return val{}, t.errf(e, "unsupported math.%s", name)
		}
		ps := make([]Type, mf.n)
		args, err := t.argVals(e.Args, ps, env, e)
		if err != nil {
			return val{}, err
		}
		return val{"(" + strings.Join(append([]string{mf.coq}, args...), " ") + ")", tFloat}, nil
	}
	if strings.HasPrefix(path, vectorPath) {
		var tab map[string]pre
		switch strings.TrimPrefix(path, vectorPath) {
		case "vector2":
			tab = v2Funcs
		case "vector3":
			tab = v3Funcs
		case "vector4":
			tab = v4Funcs
		default:
			return val{}, t.errf(e, "unsupported package %s", path)
		}
		p, ok := tab[name]
		if !ok {
			return val{}, t.errf(e, "unsupported function %s.%s (not in the Vec.v prelude)", local, name)
		}
		args, err := t.argVals(e.Args, p.params, env, e)
		if err != nil {
			return val{}, err
		}
		if len(args) == 0 {
			return val{p.coq, p.res}, nil
		}
		return val{"(" + strings.Join(append([]string{p.coq}, args...), " ") + ")", p.res}, nil
	}
	if path == "github.com/EliCDavis/vector" && name == "Clamp" {
		args, err := t.argVals(e.Args, []Type{tFloat, tFloat, tFloat}, env, e)
		if err != nil {
			return val{}, err
		}
		return val{"(cclamp " + strings.Join(args, " ") + ")", tFloat}, nil
	}
	p, err := t.w.loadPkg(path)
	if err != nil {
		return val{}, t.errf(e, "unsupported call %s.%s: %v", local, name, err)
	}
	fd, ok := p.Funcs[name]
	if !ok {
		return val{}, t.errf(e, "function %s.%s not found", local, name)
	}
	ref, err := t.funcRef(p, name, e)
	if err != nil {
		return val{}, err
	}
	return t.applyDecl(ref, "", fd, p, e, env)
}

// funcRef makes sure function `key` of package p is translated and returns how to name it from here.
func (t *fnTr) funcRef(p *Package, key string, at ast.Node) (string, error) {
	// which module holds it: this one if same package, else one that lists it, else the package's first module
	var owner *Module
	if p == t.pkg {
		owner = t.mod
		for _, m := range t.w.Mods {
			if m != t.mod && m.ImportPath == p.ImportPath {
				for _, w := range m.Want {
					if w == key {
						owner = m
					}
				}
			}
		}
	} else {
		owner = t.w.ModByPath[p.ImportPath]
		for _, m := range t.w.Mods {
			if m.ImportPath == p.ImportPath {
				for _, w := range m.Want {
					if w == key {
						owner = m
					}
				}
			}
		}
	}
	if owner == nil {
		return "", t.errf(at, "call into package %s which is not a module of the spec", p.Dir)
	}
	if owner.Pkg == nil {
		owner.Pkg = p
	}
	if err := t.w.need(owner, key, t.pkg.Fset.Position(at.Pos())); err != nil {
		return "", err
	}
	if owner == t.mod {
		return coqFuncName(key), nil
	}
	if owner.emitted {
		return "", t.errf(at, "module %s was already emitted without %s: list it in the spec", owner.Name, key)
	}
	t.noteImport(owner)
	return owner.Name + "." + coqFuncName(key), nil
}

func (t *fnTr) methodRef(s *Struct, method string, at ast.Node) (string, *ast.FuncDecl, error) {
	p, err := t.w.loadPkg(s.Mod.ImportPath)
	if err != nil {
		return "", nil, t.errf(at, "%v", err)
	}
	key := s.Name + "." + method
	fd, ok := p.Funcs[key]
	if !ok {
		return "", nil, t.errf(at, "method %s not found", key)
	}
	ref, err := t.funcRef(p, key, at)
	return ref, fd, err
}

// applyDecl renders a call of a translated function given its declaration (for parameter/result types).
func (t *fnTr) applyDecl(ref, recv string, fd *ast.FuncDecl, p *Package, e *ast.CallExpr, env *Env) (val, error) {
	args, err := t.args(e, fd, env)
	if err != nil {
		return val{}, err
	}
	sub := &fileCtx{w: t.w, mod: t.mod, pkg: p, file: p.FileOf[fd], imps: fileImports(p.FileOf[fd])}
	if fd.Type.Results == nil || len(fd.Type.Results.List) == 0 {
		return val{}, t.errf(e, "unsupported call: %s has no result", fd.Name.Name)
	}
	// several results (also `(x, y float64)`) form a tuple, destructured by `a, b := f()`
	var rts []Type
	for _, f := range fd.Type.Results.List {
		ft, ptr, err := sub.resolveType(f.Type)
		if err != nil {
			return val{}, err
		}
		if ptr {
			return val{}, t.errf(e, "unsupported pointer result of %s", fd.Name.Name)
		}
		n := len(f.Names)
		if n == 0 {
			n = 1
		}
		for i := 0; i < n; i++ {
			rts = append(rts, ft)
		}
	}
	rt := rts[0]
	if len(rts) > 1 {
		rt = Type{K: KTuple, Elems: rts}
	}
	parts := []string{ref}
	if recv != "" {
		parts = append(parts, recv)
	}
	parts = append(parts, args...)
	qual := ref
	if !strings.Contains(qual, ".") {
		qual = t.mod.Name + "." + ref
	}
	if t.w.Panicky[qual] {
		if err := t.notePanickingCall(ref, parts[1:], e); err != nil {
			return val{}, err
		}
	}
	if len(parts) == 1 {
		return val{ref, rt}, nil
	}
	return val{"(" + strings.Join(parts, " ") + ")", rt}, nil
}

// args translates the arguments of a call to a declared function and checks their types.
func (t *fnTr) args(e *ast.CallExpr, fd *ast.FuncDecl, env *Env) ([]string, error) {
	p := t.pkg
	for _, q := range t.w.Pkgs {
		if _, ok := q.FileOf[fd]; ok {
			p = q
		}
	}
	sub := &fileCtx{w: t.w, mod: t.mod, pkg: p, file: p.FileOf[fd], imps: fileImports(p.FileOf[fd])}
	var pts []Type
	variadic := false
	for i, f := range fd.Type.Params.List {
		if _, ok := f.Type.(*ast.Ellipsis); ok {
			if i != len(fd.Type.Params.List)-1 || len(f.Names) > 1 {
				return nil, t.errf(e, "unsupported call of variadic function %s", fd.Name.Name)
			}
			variadic = true // resolveType: the variadic parameter is a list
		}
		pt, ptr, err := sub.resolveType(f.Type)
		if err != nil {
			return nil, err
		}
		if ptr {
			return nil, t.errf(e, "unsupported pointer parameter of %s", fd.Name.Name)
		}
		n := len(f.Names)
		if n == 0 {
			n = 1
		}
		for i := 0; i < n; i++ {
			pts = append(pts, pt)
		}
	}
	if !variadic {
		if e.Ellipsis != token.NoPos {
			return nil, t.errf(e, "unsupported variadic call: %s is not variadic", fd.Name.Name)
		}
		return t.argVals(e.Args, pts, env, e)
	}
	if e.Ellipsis != token.NoPos {
		// f(a, xs...): the list is passed as it is
		return t.argVals(e.Args, pts, env, e)
	}
	// f(a, x1, ..., xn): the trailing arguments form a new list
	nfix := len(pts) - 1
	if len(e.Args) < nfix {
		return nil, t.errf(e, "call with %d arguments where at least %d are expected", len(e.Args), nfix)
	}
	out, err := t.argVals(e.Args[:nfix], pts[:nfix], env, e)
	if err != nil {
		return nil, err
	}
	et := pts[nfix].Elems[0]
	var elts []string
	for i, a := range e.Args[nfix:] {
		v, err := t.expr(a, env)
		if err != nil {
			return nil, err
		}
		if !v.ty.eq(et) {
			return nil, t.errf(a, "argument %d has type %s where %s is expected", nfix+i+1, v.ty, et)
		}
		elts = append(elts, v.code)
	}
	if len(elts) == 0 {
		return append(out, "(@nil "+paren(et.coq(t.mod))+")"), nil
	}
	return append(out, "["+strings.Join(elts, "; ")+"]"), nil
}

// callsDeclaredFunc: the callee is a plain function declared in this package or in another package of the
// repository (the only calls whose parameter list, hence variadic-ness, the translator knows).
func (t *fnTr) callsDeclaredFunc(e *ast.CallExpr, env *Env) bool {
	switch f := e.Fun.(type) {
	case *ast.Ident:
		_, ok := t.pkg.Funcs[f.Name]
		return ok && env.lookup(f.Name) == nil
	case *ast.SelectorExpr:
		id, ok := f.X.(*ast.Ident)
		if !ok || env.lookup(id.Name) != nil {
			return false
		}
		path, ok := t.imps[id.Name]
		return ok && path != "math" && !strings.HasPrefix(path, "github.com/EliCDavis/vector") &&
			(strings.HasPrefix(path, t.w.ModulePath+"/") || path == t.w.ModulePath)
	}
	return false
}

func (t *fnTr) argVals(args []ast.Expr, pts []Type, env *Env, at ast.Node) ([]string, error) {
	if len(args) != len(pts) {
		return nil, t.errf(at, "call with %d arguments where %d are expected", len(args), len(pts))
	}
	var out []string
	for i, a := range args {
		v, err := t.expr(a, env)
		if err != nil {
			return nil, err
		}
		if !v.ty.eq(pts[i]) {
			return nil, t.errf(a, "argument %d has type %s where %s is expected", i+1, v.ty, pts[i])
		}
		out = append(out, v.code)
	}
	return out, nil
}
