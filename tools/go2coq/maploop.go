package main

// Element-wise array loops ("map" idiom) and in-place slice functions.
//
//	out := make([]T, len(xs))                         out  := map (fun _ => zero) xs
//	for i, v := range xs { ys[i] = E(v, xs[i]) }      ys'  := map (fun v => E) xs        (len ys = len xs known statically;
//	for i := range xs    { ys[i] = E(xs[i]) }                                             ys may be xs itself: in place)
//	for i := 0; i < len(zs); i++ { ys[i] = E(xs[i]) } ys'  := map (fun x => E) xs        (len zs = len ys = len xs)
//	copy(dst, src)        (equal lengths)             dst' := src
//	recv.M(xs)            (M stores into its slice parameter, no result)   xs' := M recv xs
//	func (r R) M(in []T) { ...in[i] = ... }           Definition M r in : list T := <final value of in>
//
//	ys := make([]T, 0, n); for i := K; i < len(xs); i++ { v := xs[i-c]; ys = append(ys, E) }
//	                                                  ys'  := map (fun i => E) (seq K (length xs - K))   (appendloop.go)
//	f(a, xs...)  /  f(a, x1, x2)   (variadic f)       f a xs  /  f a [x1; x2]                             (appendloop.go)
//
// Everything else about slices (other appends, re-slicing, index arithmetic, partial loops, goroutines ...) is rejected by name.

import (
	"fmt"
	"go/ast"
	"go/token"
	"strings"
)

// isIndexStoreBody: the loop body is the single statement  ys[i] = E
func isIndexStoreBody(b *ast.BlockStmt) (*ast.AssignStmt, *ast.IndexExpr, bool) {
	if b == nil || len(b.List) != 1 {
		return nil, nil, false
	}
	as, ok := b.List[0].(*ast.AssignStmt)
	if !ok || as.Tok != token.ASSIGN || len(as.Lhs) != 1 || len(as.Rhs) != 1 {
		return nil, nil, false
	}
	ix, ok := as.Lhs[0].(*ast.IndexExpr)
	return as, ix, ok
}

// inPlaceParam: the function has no result and stores into exactly one of its slice parameters (xs[i] = ...):
// returns the position of that parameter among the (flattened) parameters and its name.
func inPlaceParam(fd *ast.FuncDecl) (int, string, bool) {
	if fd.Body == nil || (fd.Type.Results != nil && len(fd.Type.Results.List) > 0) {
		return 0, "", false
	}
	slices := map[string]int{}
	pos := 0
	for _, f := range fd.Type.Params.List {
		at, isSlice := f.Type.(*ast.ArrayType)
		for _, n := range f.Names {
			if isSlice && at.Len == nil {
				slices[n.Name] = pos
			}
			pos++
		}
	}
	stored := map[string]bool{}
	ast.Inspect(fd.Body, func(n ast.Node) bool {
		if as, ok := n.(*ast.AssignStmt); ok {
			for _, l := range as.Lhs {
				if ix, ok := l.(*ast.IndexExpr); ok {
					if id, ok := ix.X.(*ast.Ident); ok {
						if _, isP := slices[id.Name]; isP {
							stored[id.Name] = true
						}
					}
				}
			}
		}
		return true
	})
	if len(stored) != 1 {
		return 0, "", false
	}
	for n := range stored {
		return slices[n], n, true
	}
	return 0, "", false
}

// makeList: x := make([]T, len(xs))
func (t *fnTr) makeList(call *ast.CallExpr, env *Env) (val, string, error) {
	if len(call.Args) != 2 {
		return val{}, "", t.errf(call, "unsupported make (only make([]T, len(xs)))")
	}
	ty, ptr, err := t.resolveType(call.Args[0])
	if err != nil {
		return val{}, "", err
	}
	if ptr || ty.K != KList {
		return val{}, "", t.errf(call, "unsupported make (only make([]T, len(xs)))")
	}
	lc, ok := call.Args[1].(*ast.CallExpr)
	if !ok || len(lc.Args) != 1 {
		return val{}, "", t.errf(call, "unsupported make: the length must be len(xs) of a list variable")
	}
	lf, ok := lc.Fun.(*ast.Ident)
	xs, ok2 := lc.Args[0].(*ast.Ident)
	if !ok || !ok2 || lf.Name != "len" || env.lookup("len") != nil {
		return val{}, "", t.errf(call, "unsupported make: the length must be len(xs) of a list variable")
	}
	xb := env.lookup(xs.Name)
	if xb == nil || xb.ty.K != KList || xb.lenOf == "" {
		return val{}, "", t.errf(call, "unsupported make: %s is not a list variable of known length", xs.Name)
	}
	z, err := t.zero(ty.Elems[0], call)
	if err != nil {
		return val{}, "", err
	}
	return val{fmt.Sprintf("(map (fun _ => %s) %s)", z, xb.name), ty}, xb.lenOf, nil
}

func isMakeCall(e ast.Expr, env *Env) (*ast.CallExpr, bool) {
	c, ok := e.(*ast.CallExpr)
	if !ok {
		return nil, false
	}
	id, ok := c.Fun.(*ast.Ident)
	return c, ok && id.Name == "make" && env.lookup("make") == nil
}

// mapStore translates the element-wise loop; `over` is the list the loop runs over (its length is the trip count),
// idx the Go name of the index variable, elemVar the Go name of the element variable ("" if none).
func (t *fnTr) mapStore(loop ast.Node, as *ast.AssignStmt, ix *ast.IndexExpr, over *ast.Ident, idx, elemVar string, env *Env) ([]string, error) {
	bad := func(n ast.Node, what string) ([]string, error) {
		return nil, t.errf(n, "unsupported statement: element-wise loop (%s; only `for i, v := range xs { ys[i] = E }` with len(ys) = len(xs))", what)
	}
	ob := env.lookup(over.Name)
	if ob == nil || ob.ty.K != KList || ob.lenOf == "" {
		return bad(loop, over.Name+" is not a list variable of known length")
	}
	ys, ok := ix.X.(*ast.Ident)
	if !ok {
		return bad(ix, "the target is not a list variable")
	}
	if ii, ok := ix.Index.(*ast.Ident); !ok || ii.Name != idx {
		return bad(ix, "the target index is not the loop index")
	}
	yb := env.lookup(ys.Name)
	if yb == nil || yb.ty.K != KList || yb.lenOf == "" || yb.exploded {
		return bad(ix, ys.Name+" is not a list variable of known length")
	}
	if yb.lenOf != ob.lenOf {
		return bad(ix, "the length of "+ys.Name+" is not known to equal the trip count")
	}
	// the lists read element-wise (xs[i]) must all have the trip count as length; the element expression may read at
	// most one of them (plus the loop's own element variable) and must not mention the target list otherwise
	src := over.Name
	reads := map[string]bool{}
	illegal := ""
	ast.Inspect(as.Rhs[0], func(n ast.Node) bool {
		switch n := n.(type) {
		case *ast.FuncLit:
			illegal = "function literal"
			return false
		case *ast.IndexExpr:
			if id, ok := n.X.(*ast.Ident); ok {
				if ii, ok := n.Index.(*ast.Ident); ok && ii.Name == idx {
					reads[id.Name] = true
					return false
				}
			}
		case *ast.Ident:
			if n.Name == ys.Name {
				illegal = "the element expression mentions " + ys.Name + " other than as " + ys.Name + "[" + idx + "]"
			}
		}
		return true
	})
	if illegal != "" {
		return bad(as, illegal)
	}
	if elemVar == "" {
		// index form: the elements come from the one list that is read
		switch len(reads) {
		case 0:
		case 1:
			for n := range reads {
				src = n
			}
		default:
			return bad(as, "the element expression reads several lists")
		}
	} else {
		for n := range reads {
			if n != over.Name {
				return bad(as, "the element expression reads "+n+"["+idx+"] besides the range variable")
			}
		}
	}
	sb := env.lookup(src)
	if sb == nil || sb.ty.K != KList || sb.lenOf != ob.lenOf {
		return bad(as, "the length of "+src+" is not known to equal the trip count")
	}
	inner := env.clone().push()
	elemName := t.fresh(src + "_i")
	if elemVar != "" {
		elemName = t.fresh(elemVar)
		inner.define(elemVar, &binding{name: elemName, ty: sb.ty.Elems[0]})
	}
	inner.define(idx, &binding{name: "?", ty: tInt, loopOf: src, elem: elemName, elemTy: sb.ty.Elems[0]})
	v, err := t.expr(as.Rhs[0], inner)
	if err != nil {
		return nil, err
	}
	if err := t.noCalleePanicsSince(0, as, "a loop body"); err != nil {
		return nil, err
	}
	if !v.ty.eq(yb.ty.Elems[0]) {
		return nil, t.errf(as, "element of type %s stored into %s", v.ty, yb.ty)
	}
	root := yb.lenOf
	lets, err := t.bind(ys.Name, val{fmt.Sprintf("(map (fun %s => %s) %s)", elemName, v.code, sb.name), yb.ty}, env, false, as)
	if err != nil {
		return nil, err
	}
	env.lookup(ys.Name).lenOf = root
	return lets, nil
}

// rangeMap: for i, v := range xs { ys[i] = E }   /   for i := range xs { ys[i] = E }
func (t *fnTr) rangeMap(s *ast.RangeStmt, as *ast.AssignStmt, ix *ast.IndexExpr, env *Env) ([]string, error) {
	if s.Tok != token.DEFINE {
		return nil, t.errf(s, "unsupported statement: element-wise loop (loop variables must be declared with :=)")
	}
	k, ok := s.Key.(*ast.Ident)
	if !ok || k.Name == "_" {
		return nil, t.errf(s, "unsupported statement: element-wise loop (no index variable)")
	}
	elemVar := ""
	if s.Value != nil {
		v, ok := s.Value.(*ast.Ident)
		if !ok {
			return nil, t.errf(s, "unsupported statement: element-wise loop (element variable)")
		}
		if v.Name != "_" {
			elemVar = v.Name
		}
	}
	xs, ok := s.X.(*ast.Ident)
	if !ok {
		return nil, t.errf(s, "unsupported statement: element-wise loop (the range expression is not a list variable)")
	}
	return t.mapStore(s, as, ix, xs, k.Name, elemVar, env)
}

// forMap: for i := 0; i < len(zs); i++ { ys[i] = E }
func (t *fnTr) forMap(s *ast.ForStmt, as *ast.AssignStmt, ix *ast.IndexExpr, env *Env) ([]string, error) {
	bad := func(what string) ([]string, error) {
		return nil, t.errf(s, "unsupported statement: element-wise loop (%s; only `for i := 0; i < len(xs); i++ { ys[i] = E }`)", what)
	}
	init, ok := s.Init.(*ast.AssignStmt)
	if !ok || init.Tok != token.DEFINE || len(init.Lhs) != 1 || len(init.Rhs) != 1 {
		return bad("initialiser")
	}
	iv, ok := init.Lhs[0].(*ast.Ident)
	if start, ok2 := intLit(init.Rhs[0]); !ok || !ok2 || start != "0" {
		return bad("the loop must start at 0")
	}
	cond, ok := s.Cond.(*ast.BinaryExpr)
	if !ok || cond.Op != token.LSS {
		return bad("condition")
	}
	if ci, ok := cond.X.(*ast.Ident); !ok || ci.Name != iv.Name {
		return bad("condition")
	}
	lc, ok := cond.Y.(*ast.CallExpr)
	if !ok || len(lc.Args) != 1 {
		return bad("bound is not len(xs)")
	}
	lf, ok := lc.Fun.(*ast.Ident)
	zs, ok2 := lc.Args[0].(*ast.Ident)
	if !ok || !ok2 || lf.Name != "len" || env.lookup("len") != nil {
		return bad("bound is not len(xs)")
	}
	post, ok := s.Post.(*ast.IncDecStmt)
	if !ok || post.Tok != token.INC {
		return bad("post statement")
	}
	if pi, ok := post.X.(*ast.Ident); !ok || pi.Name != iv.Name {
		return bad("post statement")
	}
	return t.mapStore(s, as, ix, zs, iv.Name, "", env)
}

// sliceCallStmt: copy(dst, src) and calls of in-place slice functions; handled=false when s is neither.
func (t *fnTr) sliceCallStmt(s *ast.ExprStmt, env *Env) (lets []string, handled bool, err error) {
	call, ok := s.X.(*ast.CallExpr)
	if !ok {
		return nil, false, nil
	}
	if id, ok := call.Fun.(*ast.Ident); ok && id.Name == "copy" && env.lookup("copy") == nil {
		if len(call.Args) != 2 {
			return nil, true, t.errf(s, "bad copy call")
		}
		d, ok1 := call.Args[0].(*ast.Ident)
		c, ok2 := call.Args[1].(*ast.Ident)
		if !ok1 || !ok2 {
			return nil, true, t.errf(s, "unsupported copy (only copy(dst, src) of list variables of equal length)")
		}
		db, cb := env.lookup(d.Name), env.lookup(c.Name)
		if db == nil || cb == nil || db.ty.K != KList || !db.ty.eq(cb.ty) || db.lenOf == "" || db.lenOf != cb.lenOf {
			return nil, true, t.errf(s, "unsupported copy (only copy(dst, src) of list variables of equal, statically known length)")
		}
		root := db.lenOf
		lets, err := t.bind(d.Name, val{cb.name, db.ty}, env, false, s)
		if err == nil {
			env.lookup(d.Name).lenOf = root
		}
		return lets, true, err
	}
	se, ok := call.Fun.(*ast.SelectorExpr)
	if !ok {
		return nil, false, nil
	}
	id, ok := se.X.(*ast.Ident)
	if !ok {
		return nil, false, nil
	}
	b := env.lookup(id.Name)
	if b == nil || b.ty.K != KStruct {
		return nil, false, nil
	}
	p, perr := t.w.loadPkg(b.ty.S.Mod.ImportPath)
	if perr != nil {
		return nil, false, nil
	}
	fd, ok := p.Funcs[b.ty.S.Name+"."+se.Sel.Name]
	if !ok {
		return nil, false, nil
	}
	if _, isPtr := fd.Recv.List[0].Type.(*ast.StarExpr); isPtr {
		return nil, false, nil
	}
	pos, _, ok := inPlaceParam(fd)
	if !ok {
		return nil, false, nil
	}
	if pos >= len(call.Args) {
		return nil, true, t.errf(s, "bad call of %s", se.Sel.Name)
	}
	target, ok := call.Args[pos].(*ast.Ident)
	if !ok {
		return nil, true, t.errf(s, "unsupported call statement: the slice %s updates must be a local list variable", se.Sel.Name)
	}
	tb := env.lookup(target.Name)
	if tb == nil || tb.ty.K != KList {
		return nil, true, t.errf(s, "unsupported call statement: %s is not a list variable", target.Name)
	}
	ref, _, rerr := t.methodRef(b.ty.S, se.Sel.Name, call)
	if rerr != nil {
		return nil, true, rerr
	}
	args, aerr := t.args(call, fd, env)
	if aerr != nil {
		return nil, true, aerr
	}
	root := tb.lenOf
	code := "(" + strings.Join(append([]string{ref, t.valueOf(b)}, args...), " ") + ")"
	lets, err = t.bind(target.Name, val{code, tb.ty}, env, false, s)
	if err == nil {
		// an in-place element-wise function keeps the length (it is translated to a map)
		env.lookup(target.Name).lenOf = root
	}
	return lets, true, err
}
