"""Shared driver library for the polyform Coq verification checks.

A check for property Cxx:
  1. grep gate (no Admitted/Axiom/... anywhere in the development)
  2. (T properties) regenerate coq/gen/*.v from /repo with tools/go2coq
  3. build coq targets: the model + correspondence evaluator (Check/Cxx.vo) and the
     property theorems (Properties/Cxx.vo) -- full .vo build, never -vos
  4. build the Go harness against /repo's working tree and run it: it executes the
     implementation on corpus + generated inputs and writes the observations as Coq cases
  5. coqc evaluates the cases with vm_compute: model-vs-implementation (bad_corr) and the
     property itself on the implementation's output (bad_prop, the direct oracle)
  6. classify, report VIOLATION / KNOWN-FINDING lines, write evidence/Cxx.json
"""
import concurrent.futures as cf
import fcntl
import glob
import hashlib
import json
import os
import re
import shutil
import subprocess
import sys
import time

VERIF = os.path.dirname(os.path.dirname(os.path.abspath(__file__)))
REPO = os.environ.get("VERIF_REPO", "/repo")
COQ = os.path.join(VERIF, "coq")
SCRATCH = os.path.abspath(REPO) != "/repo"          # checking a scratch copy: keep evidence/replays out of /verif
BUILD = os.environ.get("VERIF_BUILD") or (
    os.path.join(VERIF, "build") if os.path.abspath(REPO) == "/repo"
    else os.path.join("/tmp", "verif-build-" + hashlib.sha1(os.path.abspath(REPO).encode()).hexdigest()[:8]))
if SCRATCH:
    # a scratch repository gets its own copy of the Coq development (generated files differ per repository)
    COQ = os.path.join(BUILD, "coq")
os.environ["VERIF_COQ"] = COQ
GOENV = dict(os.environ, GOFLAGS="-mod=mod", GOPROXY="off", GOSUMDB="off", GOTOOLCHAIN="local",
             CGO_ENABLED=os.environ.get("CGO_ENABLED", "1"))

FORBIDDEN = re.compile(
    r"\b(Admitted|admit|Axiom|Axioms|Parameter|Parameters|Conjecture|Conjectures|Admit Obligations|"
    r"Unset Guard Checking|Unset Positivity Checking|Unset Universe Checking|bypass_check|"
    r"Guard Checking|type-in-type|impredicative-set|native_compute)\b")


def sh(cmd, cwd=None, timeout=None, env=None, stdin=None):
    """Run a command, return (rc, combined output)."""
    try:
        p = subprocess.run(cmd, cwd=cwd, env=env or GOENV, timeout=timeout, input=stdin,
                           stdout=subprocess.PIPE, stderr=subprocess.STDOUT, text=True,
                           shell=isinstance(cmd, str))
        return p.returncode, p.stdout
    except subprocess.TimeoutExpired as e:
        out = e.stdout or ""
        if isinstance(out, bytes):
            out = out.decode("utf-8", "replace")
        return 124, out + "\n[timeout after %ss]" % timeout


class Lock:
    def __init__(self, name):
        os.makedirs(BUILD, exist_ok=True)
        base = BUILD
        if name == "coq" and not SCRATCH:
            base = os.path.join(VERIF, "build")
        self.path = os.path.join(base, name + ".lock")

    def __enter__(self):
        self.f = open(self.path, "w")
        fcntl.flock(self.f, fcntl.LOCK_EX)
        return self

    def __exit__(self, *a):
        fcntl.flock(self.f, fcntl.LOCK_UN)
        self.f.close()


# ---------------------------------------------------------------- Coq side
def strip_comments(text):
    """Remove (* comments *) (nested) and the contents of "string literals"."""
    out, depth, i, n = [], 0, 0, len(text)
    while i < n:
        if text.startswith("(*", i):
            depth += 1
            i += 2
        elif text.startswith("*)", i) and depth > 0:
            depth -= 1
            i += 2
        elif text[i] == '"':
            # Coq string literal (also inside comments): skip to the closing quote, "" is an escaped quote
            j = i + 1
            while j < n:
                if text[j] == '"':
                    if j + 1 < n and text[j + 1] == '"':
                        j += 2
                        continue
                    break
                j += 1
            if depth == 0:
                out.append('""')
            i = j + 1
        else:
            if depth == 0:
                out.append(text[i])
            i += 1
    return "".join(out)


def grep_gate():
    """No declared axioms, admits or disabled kernel checks anywhere in the development."""
    bad = []
    for root in ("theories", "gen"):
        for path in glob.glob(os.path.join(COQ, root, "**", "*.v"), recursive=True):
            txt = strip_comments(open(path).read())
            # string literals cannot contain the keywords we look for in this development
            for m in FORBIDDEN.finditer(txt):
                line = txt.count("\n", 0, m.start()) + 1
                bad.append("%s:%d: %s" % (os.path.relpath(path, VERIF), line, m.group(0)))
            # Variable/Hypothesis outside a section would be an axiom: require Section nesting
            depth = 0
            for ln, l in enumerate(txt.split("\n"), 1):
                s = l.strip()
                if re.match(r"Section\s+\w+", s):
                    depth += 1
                elif re.match(r"End\s+\w+\s*\.", s) and depth > 0:
                    depth -= 1
                elif re.match(r"(Variable|Variables|Hypothesis|Hypotheses|Context)\b", s) and depth == 0:
                    bad.append("%s:%d: %s outside a section" % (os.path.relpath(path, VERIF), ln, s.split()[0]))
    return bad


_synced = False


def sync_scratch_coq():
    """scratch runs: copy /verif/coq (sources and compiled files) once per process into BUILD/coq."""
    global _synced
    if SCRATCH and not _synced:
        os.makedirs(COQ, exist_ok=True)
        with Lock("coq"):
            sh(["rsync", "-a", "--delete", "--exclude", "gen/", os.path.join(VERIF, "coq") + "/", COQ + "/"], timeout=600)
            if not os.path.isdir(os.path.join(COQ, "gen")):
                sh(["rsync", "-a", os.path.join(VERIF, "coq", "gen") + "/", os.path.join(COQ, "gen") + "/"], timeout=600)
            # Makefile.conf records absolute paths: regenerate
            for f in ("Makefile", "Makefile.conf", "_CoqProject", ".Makefile.d"):
                try:
                    os.remove(os.path.join(COQ, f))
                except OSError:
                    pass
        _synced = True


def coq_build(targets, timeout=1500):
    """make the given .vo targets (relative to coq/). Returns (ok, log)."""
    sync_scratch_coq()
    with Lock("coq"):
        rc, out = sh([os.path.join(VERIF, "bin", "mkcoq.sh")], timeout=120)
        if rc != 0:
            return False, out
        # every coqc call is bounded: a proof script that diverges must not stall the check
        rc, out2 = sh(["make", "-j16", "-k", "COQC=timeout %d coqc" % int(os.environ.get("VERIF_COQC_TIMEOUT", "900"))]
                      + list(targets), cwd=COQ, timeout=timeout)
        return rc == 0, out + out2


class Slot:
    """machine-wide semaphore (flock on one of N slot files) bounding the number of concurrent case-evaluating
    coqc processes over ALL checks running on this machine (each needs 0.5-1 GB)."""
    N = int(os.environ.get("VERIF_COQC_SLOTS", "20"))

    def __enter__(self):
        import random
        d = os.path.join("/tmp", "verif-coqc-slots")
        os.makedirs(d, exist_ok=True)
        while True:
            order = list(range(self.N))
            random.shuffle(order)
            for i in order:
                f = open(os.path.join(d, "slot%d" % i), "w")
                try:
                    fcntl.flock(f, fcntl.LOCK_EX | fcntl.LOCK_NB)
                    self.f = f
                    return self
                except OSError:
                    f.close()
            time.sleep(0.25)

    def __exit__(self, *a):
        fcntl.flock(self.f, fcntl.LOCK_UN)
        self.f.close()


def coqc_file(path, timeout=900, cwd=None):
    return sh(["coqc", "-R", os.path.join(COQ, "theories"), "PF", "-R", os.path.join(COQ, "gen"), "PFGen",
               "-w", "-notation-overridden", path], cwd=cwd or os.path.dirname(path), timeout=timeout)


def print_assumptions(prop_file):
    """Re-run coqc on the (small) property file and parse the Print Assumptions blocks.
    Returns (ok, [(theorem, [axioms])], raw output)."""
    src = strip_comments(open(prop_file).read())
    names = re.findall(r"Print Assumptions\s+([\w.']+)\s*\.", src)
    tmpdir = os.path.join(BUILD, "pa")
    os.makedirs(tmpdir, exist_ok=True)
    tmp = os.path.join(tmpdir, os.path.basename(prop_file))
    shutil.copy(prop_file, tmp)
    rc, out = coqc_file(tmp, timeout=900, cwd=tmpdir)
    if rc != 0:
        return False, [], out
    blocks = re.split(r"(?m)^(?=Closed under the global context|Axioms:)", out)
    blocks = [b for b in blocks if b.startswith("Closed") or b.startswith("Axioms:")]
    res = []
    for i, name in enumerate(names):
        if i < len(blocks):
            b = blocks[i]
            if b.startswith("Closed"):
                res.append((name, []))
            else:
                ax = re.findall(r"(?m)^([A-Za-z_][\w.']*)\s*:", b[len("Axioms:"):])
                res.append((name, sorted(set(ax))))
        else:
            res.append((name, ["<no output>"]))
    return True, res, out


def coqchk(prop_file, timeout=2400, modules=None):
    """Independent re-check (coqchk) of the compiled property file and everything it depends on (or, when the plugin
    names them, of the listed modules and everything THEY depend on). Returns (ok, summary dict, raw tail)."""
    mods = list(modules) if modules else [
        "PF." + os.path.splitext(prop_file)[0].replace("theories/", "", 1).replace("/", ".")]
    rc, out = sh(["coqchk", "-silent", "-o", "-R", os.path.join(COQ, "theories"), "PF",
                  "-R", os.path.join(COQ, "gen"), "PFGen"] + mods, cwd=COQ, timeout=timeout)
    summ = {}
    m = re.search(r"CONTEXT SUMMARY\s*=+\s*(.*)", out, re.S)
    if m:
        for key, val in re.findall(r"\* ([^:\n]+):\s*(.*?)(?=\n\s*\n|\Z)", m.group(1), re.S):
            summ[key.strip()] = re.sub(r"\s+", " ", val.strip())
    return rc == 0, summ, out[-2500:]


def count_qed(files):
    n = 0
    for f in files:
        p = os.path.join(COQ, f)
        if os.path.exists(p):
            txt = strip_comments(open(p).read())
            n += len(re.findall(r"\b(Qed|Defined)\s*\.", txt))
    return n


def theorem_names(prop_file):
    txt = strip_comments(open(prop_file).read())
    return re.findall(r"(?m)^\s*(?:Theorem|Lemma|Corollary|Example)\s+([\w']+)", txt)


def eval_cases(outdir, timeout=1200):
    """coqc every cases_<k>.v shard in parallel; returns (ok, bad_corr ids, bad_prop ids, log)."""
    shards = sorted(glob.glob(os.path.join(outdir, "cases_*.v")))
    bad_corr, bad_prop, logs, ok = [], [], [], True

    def one(path):
        with Slot():
            return path, coqc_file(path, timeout=timeout)

    with cf.ThreadPoolExecutor(max_workers=16) as ex:
        for path, (rc, out) in ex.map(one, shards):
            if rc != 0:
                ok = False
                logs.append("%s: rc=%d\n%s" % (path, rc, out[-3000:]))
                continue
            flat = re.sub(r"\s+", " ", out)
            m1 = re.search(r"bad_corr = (\[[^\]]*\])", flat)
            m2 = re.search(r"bad_prop = (\[[^\]]*\])", flat)
            if not m1 or not m2:
                ok = False
                logs.append("%s: unparsable output\n%s" % (path, out[-2000:]))
                continue
            bad_corr += [int(x) for x in re.findall(r"\d+", m1.group(1))]
            bad_prop += [int(x) for x in re.findall(r"\d+", m2.group(1))]
    for p in glob.glob(os.path.join(outdir, "*.vo")) + glob.glob(os.path.join(outdir, "*.glob")) + \
            glob.glob(os.path.join(outdir, ".*.aux")) + glob.glob(os.path.join(outdir, "*.vok")) + \
            glob.glob(os.path.join(outdir, "*.vos")):
        try:
            os.remove(p)
        except OSError:
            pass
    return ok, sorted(bad_corr), sorted(bad_prop), "\n".join(logs)


# ---------------------------------------------------------------- Go side
def harness_build(name, tags="verif", race=False, timeout=1200):
    hdir = os.path.join(VERIF, "harness")
    out = os.path.join(BUILD, "harness", name + ("-race" if race else ""))
    os.makedirs(os.path.dirname(out), exist_ok=True)
    with Lock("go-" + name):
        try:
            shutil.copy(os.path.join(REPO, "go.sum"), os.path.join(hdir, "go.sum"))
        except OSError:
            pass
        modargs = []
        if os.path.abspath(REPO) != "/repo":
            # scratch copy of the repository (VERIF_REPO): same module graph, different replace target
            md = os.path.join(BUILD, "modfiles")
            os.makedirs(md, exist_ok=True)
            mf = os.path.join(md, name + ".mod")
            txt = open(os.path.join(hdir, "go.mod")).read().replace("=> /repo", "=> " + os.path.abspath(REPO))
            open(mf, "w").write(txt)
            shutil.copy(os.path.join(REPO, "go.sum"), os.path.join(md, name + ".sum"))
            modargs = ["-modfile=" + mf]
        cmd = ["go", "build", "-trimpath"] + modargs + ["-tags", tags] + (["-race"] if race else []) + ["-o", out, "./cmd/" + name]
        rc, log = sh(cmd, cwd=hdir, timeout=timeout)
    return rc == 0, out, log


def load_cases(outdir):
    cases = {}
    p = os.path.join(outdir, "cases.jsonl")
    if os.path.exists(p):
        for l in open(p):
            l = l.strip()
            if l:
                c = json.loads(l)
                cases[c["id"]] = c
    return cases


# ---------------------------------------------------------------- findings / reporting
def known_findings(prop):
    p = os.path.join(VERIF, "known_findings.json")
    if not os.path.exists(p):
        return []
    data = json.load(open(p))
    return [e for e in data.get("findings", []) if e.get("property") == prop and e.get("status") == "known"]


def write_replay(prop, payload):
    d = os.path.join(BUILD if SCRATCH else VERIF, "replays", prop)
    os.makedirs(d, exist_ok=True)
    raw = json.dumps(payload, sort_keys=True, indent=1)
    h = hashlib.sha1(raw.encode()).hexdigest()[:12]
    path = os.path.join(d, h + ".json")
    open(path, "w").write(raw)
    return path


def repo_state():
    rc, head = sh(["git", "-C", REPO, "rev-parse", "HEAD"])
    rc2, st = sh(["git", "-C", REPO, "status", "--porcelain"])
    return {"head": head.strip(), "dirty_files": [l[3:] for l in st.splitlines() if l.strip()][:20]}


class Report:
    """Collects the outcome of one check run and writes evidence + the exit status."""

    def __init__(self, prop, tier, seed):
        self.prop, self.tier, self.seed = prop, tier, seed
        self.t0 = time.time()
        self.violations = []      # (replay path, suffix)
        self.known = []
        self.cov = {}
        self.assumptions = []
        self.notes = []

    def violation(self, payload, no_input=False):
        payload = dict(payload, property=self.prop, seed=self.seed, tier=self.tier, repo=repo_state())
        path = write_replay(self.prop, payload)
        self.violations.append(path)
        line = "VIOLATION property=%s replay=%s" % (self.prop, path)
        if no_input:
            line += " no-failing-input-found"
        print(line, flush=True)

    def known_finding(self, entry, detail=""):
        msg = "KNOWN-FINDING: property=%s %s" % (self.prop, entry.get("what", entry.get("key", "")))
        if msg not in self.known:
            self.known.append(msg)
            print(msg, flush=True)

    def finish(self):
        ev = {
            "property_id": self.prop, "tier": self.tier, "seed": int(self.seed), "level": "proof",
            "coverage": self.cov, "assumptions": self.assumptions,
            "wall_s": round(time.time() - self.t0, 2), "violations": len(self.violations),
        }
        if self.known:
            ev["coverage"]["known_findings_reproduced"] = self.known
        if self.notes:
            ev["coverage"]["notes"] = self.notes
        evdir = os.path.join(BUILD if SCRATCH else VERIF, "evidence")
        os.makedirs(evdir, exist_ok=True)
        with open(os.path.join(evdir, self.prop + ".json"), "w") as f:
            json.dump(ev, f, indent=1, sort_keys=True)
        return 1 if self.violations else 0


BASE_TRUST = [
    "Coq 8.16.1 kernel (coqc; vm_compute used for finite lemmas and for evaluating the model on harness cases; native_compute not used)",
    "no Axiom/Parameter/Admitted in the development (grep gate on every run); Print Assumptions output recorded below",
    "Go correspondence harness (generators, projections of observables, float->word conversion by Go's math.Float32bits/strconv)",
    "Go toolchain 1.23.5 building /repo's working tree",
]


def match_known(prop, case):
    """A failing case is a known finding only when its structural fail_key is listed."""
    fk = case.get("fail_key") or ""
    for e in known_findings(prop):
        if fk and fk == e.get("key"):
            return e
    return None


def standard_check(cfg, argv):
    """cfg keys: id, harness, check_vo, prop_vo, prop_file, theory_files, n_quick, n_thorough,
    rule, trusted (extra trusted-base lines), modelled (what is modelled not verified),
    pre (optional callable(report) -> (ok, log) run before the Coq build, e.g. the translator),
    extra_args (optional list), search_n."""
    prop = cfg["id"]
    tier = "quick"
    replay = None
    args = list(argv)
    while args:
        a = args.pop(0)
        if a in ("quick", "thorough"):
            tier = a
        elif a == "--replay":
            replay = args.pop(0)
    tier = os.environ.get("VERIF_TIER", tier) if not replay else tier
    seed = int(os.environ.get("VERIF_SEED", "1") or "1")
    rep = Report(prop, tier, seed)
    n = cfg["n_thorough"] if tier == "thorough" else cfg["n_quick"]

    sync_scratch_coq()
    gate = grep_gate()
    if gate:
        rep.violation({"kind": "trusted-base-gate", "broken": "forbidden construct in the Coq development",
                       "detail": gate[:20]}, no_input=True)
        return rep.finish()

    pre_ok, pre_log = True, ""
    if cfg.get("pre"):
        pre_ok, pre_log = cfg["pre"](rep)

    check_ok, log_c = coq_build([cfg["check_vo"]])
    proofs_ok, log_p = coq_build([cfg["prop_vo"]]) if pre_ok else (False, pre_log)
    if pre_ok and not proofs_ok:
        # retry once without -k noise to get a clean error message
        pass
    assumptions = []
    pa_ok = False
    if proofs_ok:
        pa_ok, assumptions, pa_raw = print_assumptions(os.path.join(COQ, cfg["prop_file"]))
        if not pa_ok:
            proofs_ok, log_p = False, pa_raw

    chk = None
    if proofs_ok and tier == "thorough" and not replay and not os.environ.get("VERIF_NO_COQCHK"):
        c_ok, c_sum, c_raw = coqchk(cfg["prop_file"], timeout=int(cfg.get("coqchk_timeout", 2400)),
                                    modules=cfg.get("coqchk_modules"))
        chk = {"ok": c_ok, "summary": c_sum}
        if cfg.get("coqchk_modules"):
            chk["modules"] = list(cfg["coqchk_modules"])
            chk["note"] = cfg.get("coqchk_note", "")
        if not c_ok and "[timeout after" in c_raw and "rror" not in c_raw:
            # the independent re-check did not finish in its time budget: that is not a rejection. coqc (the kernel)
            # accepted every file; the evidence says plainly that coqchk did not complete for this property.
            chk = {"ok": None, "summary": {"note": "coqchk did not finish within %s s (not a rejection; coqc accepted "
                                                   "the development)" % cfg.get("coqchk_timeout", 2400)}}
        elif not c_ok:
            proofs_ok, log_p = False, "coqchk rejected the compiled development:\n" + c_raw

    hb_ok, hbin, hlog = harness_build(cfg["harness"])
    outdir = os.path.join(BUILD, "run", prop + "-" + tier + ("-replay" if replay else ""))
    shutil.rmtree(outdir, ignore_errors=True)
    os.makedirs(outdir, exist_ok=True)
    if not hb_ok:
        rep.violation({"kind": "harness-build", "broken": "correspondence harness no longer builds against /repo",
                       "detail": hlog[-4000:]}, no_input=True)
        rep.cov.update({"obligations": 1, "discharged": 0, "checker_cmd": "go build", "trusted_base": BASE_TRUST})
        return rep.finish()

    def run_harness(n_cases, sd, odir, extra=()):
        cmd = [hbin, "-seed", str(sd), "-n", str(n_cases), "-out", odir, "-tier", tier]
        corpus = os.path.join(VERIF, "corpus", prop)
        if os.path.isdir(corpus) and not replay:
            cmd += ["-corpus", corpus]
        if replay:
            cmd += ["-replay", replay]
        cmd += list(cfg.get("extra_args", [])) + list(extra)
        return sh(cmd, cwd=VERIF, timeout=cfg.get("harness_timeout", 3000))

    rc, hout = run_harness(n, seed, outdir)
    if rc != 0:
        rep.violation({"kind": "harness-run", "broken": "harness crashed or timed out running the implementation",
                       "detail": hout[-4000:]}, no_input=True)
        rep.cov.update({"obligations": 1, "discharged": 0, "checker_cmd": "harness", "trusted_base": BASE_TRUST})
        return rep.finish()
    meta = json.load(open(os.path.join(outdir, "meta.json")))
    cases = load_cases(outdir)

    bad_corr, bad_prop, ev_ok, ev_log = [], [], False, ""
    if check_ok:
        ev_ok, bad_corr, bad_prop, ev_log = eval_cases(outdir)
    go_fail = list(meta.get("go_oracle_failures", []))

    # ---- classification
    prop_fail_ids = sorted(set(bad_prop) | set(go_fail))
    reported = 0
    for cid in prop_fail_ids:
        c = cases.get(cid, {"id": cid})
        kf = match_known(prop, c)
        if kf:
            rep.known_finding(kf)
            continue
        if reported < 5:
            rep.violation({"kind": "property-fails-on-implementation", "case": c,
                           "oracle": ("coq prop_ok=false" if cid in bad_prop else "") +
                                     (" harness oracle: " + c.get("go_oracle_fail", "") if cid in go_fail else "")})
        reported += 1
    corr_only = [i for i in bad_corr if i not in prop_fail_ids]
    # disagreements on cases that are known findings are expected: the model follows the property there
    corr_only = [i for i in corr_only if not match_known(prop, cases.get(i, {}))]
    broken = []
    if not check_ok:
        broken.append(("model/evaluator does not build: " + cfg["check_vo"], tail_err(log_c)))
    elif not ev_ok:
        broken.append(("case evaluation failed", ev_log[-3000:]))
    if not proofs_ok:
        broken.append(("proof obligation no longer checks: " + cfg["prop_vo"], tail_err(log_p)))
    if corr_only:
        broken.append(("correspondence: model and implementation disagree on %d case(s)" % len(corr_only),
                       json.dumps([cases.get(i, {"id": i}) for i in corr_only[:3]])[:6000]))
    if broken and reported == 0 and not replay:
        # search for a concrete failing input with a larger, differently seeded stream
        sdir = outdir + "-search"
        shutil.rmtree(sdir, ignore_errors=True)
        os.makedirs(sdir, exist_ok=True)
        found = False
        rc2, _ = run_harness(cfg.get("search_n", max(n * 3, 300)), seed + 7919, sdir)
        if rc2 == 0:
            meta2 = json.load(open(os.path.join(sdir, "meta.json")))
            cases2 = load_cases(sdir)
            bp2 = []
            if check_ok:
                ok2, _bc2, bp2, _ = eval_cases(sdir)
            for cid in sorted(set(bp2) | set(meta2.get("go_oracle_failures", []))):
                c = cases2.get(cid, {"id": cid})
                if match_known(prop, c):
                    continue
                rep.violation({"kind": "property-fails-on-implementation", "case": c,
                               "found_by": "search after broken obligation", "broken": [b[0] for b in broken]})
                found = True
                break
        if not found:
            rep.violation({"kind": "obligation-broken", "broken": [b[0] for b in broken],
                           "detail": [b[1] for b in broken]}, no_input=True)
    elif broken and reported == 0 and replay:
        rep.violation({"kind": "obligation-broken", "broken": [b[0] for b in broken],
                       "detail": [b[1] for b in broken]}, no_input=True)

    # ---- evidence
    theory_files = list(cfg["theory_files"]) + [cfg["prop_file"]]
    obligations = count_qed(theory_files)
    discharged = obligations if proofs_ok else 0
    ax = sorted({a for _, axs in assumptions for a in axs})
    rep.assumptions = list(cfg.get("modelled", []))
    rep.cov.update({
        "obligations": max(obligations, 1), "discharged": discharged,
        "checker_cmd": "make -C coq -j16 %s %s (coqc 8.16.1, full .vo build) + coqc on %d case shard(s)" % (
            cfg["prop_vo"], cfg["check_vo"], meta.get("shards", 0)),
        "trusted_base": BASE_TRUST + list(cfg.get("trusted", [])) +
                        ["Print Assumptions: " + ("; ".join("%s: %s" % (nm, ", ".join(a) if a else "closed under the global context")
                                                             for nm, a in assumptions) or "not available")],
        "axioms": ax,
        "theorems": theorem_names(os.path.join(COQ, cfg["prop_file"])),
        "evaluations": meta["evaluations"], "distinct_nontrivial": meta["distinct_nontrivial"],
        "distinct": meta.get("distinct"),
        "rule": cfg["rule"], "samples": meta["samples"][:4], "distribution": meta["distribution"],
        "traces_validated_against_impl": meta["evaluations"] - len(bad_corr) if check_ok and ev_ok else 0,
        "model_impl_disagreements": len(bad_corr), "property_failures_on_impl": len(prop_fail_ids),
        "extra": meta.get("extra", {}),
    })
    if chk is not None:
        rep.cov["coqchk"] = chk
        rep.cov["trusted_base"].append("coqchk -silent -o (independent checker) on %s: %s; axioms: %s" % (
            (", ".join(cfg["coqchk_modules"]) + " [" + cfg.get("coqchk_note", "") + "]") if cfg.get("coqchk_modules") else cfg["prop_file"], "accepted" if chk["ok"] else ("DID NOT FINISH in its time budget" if chk["ok"] is None else "REJECTED"),
            chk["summary"].get("Axioms", "?")))
    return rep.finish()


def tail_err(log):
    m = re.search(r"(File \"[^\n]*\n(?:.*\n){0,12})", log)
    return (m.group(1) if m else log[-1500:])[:3000]
